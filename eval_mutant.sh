#!/bin/bash
# usage: eval_mutant.sh <patch> <tier> <check> [<check> ...]
# applies the patch to /repo, runs the given checks, reverts.  Prints per check: rc and the VIOLATION keys.
patch=$1; tier=$2; shift 2
cd /repo || exit 3
if ! git diff --quiet -- EoN; then echo "/repo working tree not clean"; exit 3; fi
git apply "$patch" || { echo "patch does not apply"; exit 3; }
cd /verif
for c in "$@"; do
  out=$(timeout 1500 /venv/bin/python -m eonmc.runner $c --tier $tier --no-evidence 2>&1)
  rc=$?
  echo "== $c rc=$rc $(echo "$out" | grep -c '^VIOLATION') violations"
  echo "$out" | grep "key=" | cut -c1-260 | head -6
  echo "$out" | grep -E "^(HARNESS|CAP)" | head -3 | cut -c1-300
done
git -C /repo checkout -- EoN
