#!/bin/bash
# usage: [EVAL_REPO=/some/worktree] eval_mutant.sh <patch> <tier> <check> [<check> ...]
# applies the patch to the repository copy (default /repo), runs the given checks against it, reverts.
patch=$1; tier=$2; shift 2
R=${EVAL_REPO:-/repo}
cd $R || exit 3
if ! git diff --quiet -- EoN; then echo "$R working tree not clean"; exit 3; fi
git apply "$patch" || { echo "patch does not apply"; exit 3; }
cd /verif
for c in "$@"; do
  out=$(EON_REPO=$R timeout 1500 /venv/bin/python -m eonmc.runner $c --tier $tier --no-evidence 2>&1)
  rc=$?
  echo "== $c rc=$rc $(echo "$out" | grep -c '^VIOLATION') violations"
  echo "$out" | grep "key=" | cut -c1-260 | head -6
  echo "$out" | grep -E "^(HARNESS|CAP)" | head -3 | cut -c1-300
done
git -C $R checkout -- EoN
