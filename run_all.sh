#!/bin/bash
# runs every registered check of a tier sequentially; prints one summary line per check
tier=${1:-quick}
rc=0
for c in C01 C02 C03 C04 C05 C06 C07 C08 C09 C10 C11 C12 C13 C14 C15 C16 C17 C18 C19 C20; do
  out=$(/venv/bin/python -m eonmc.runner $c --tier $tier 2>&1)
  r=$?
  echo "$out" | grep -E "^(VIOLATION|HARNESS|CAP)" | head -5
  echo "$out" | tail -1
  [ $r -ne 0 ] && rc=$r
done
exit $rc
