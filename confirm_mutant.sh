#!/bin/bash
# usage: confirm_mutant.sh <patch> <demo.py> <scratch worktree> [notests]
# Confirms in a scratch worktree (never /repo): patch applies to a clean checkout; demo exits 1 with it
# and 0 without; the pinned suite still has its 32 passing tests with it.
patch=$(readlink -f $1); demo=$(readlink -f $2); wt=$3
cd $wt || exit 3
git checkout -q -- EoN && git clean -qfd EoN >/dev/null
PYTHONPATH=$wt timeout 900 /venv/bin/python -W ignore $demo >/tmp/confirm_clean.out 2>&1; r0=$?
git apply $patch || { echo "PATCH-DOES-NOT-APPLY"; exit 3; }
PYTHONPATH=$wt timeout 900 /venv/bin/python -W ignore $demo >/tmp/confirm_mut.out 2>&1; r1=$?
echo "demo: clean rc=$r0 mutated rc=$r1"
if [ "$4" != "notests" ]; then
  PYTHONPATH=$wt timeout 3000 /venv/bin/python -W ignore -m pytest -q -p no:cacheprovider --timeout=900 --continue-on-collection-errors -n 6 EoN/tests 2>&1 | tail -1
fi
git checkout -q -- EoN
