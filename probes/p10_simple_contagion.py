exec(open(''+__import__('os').path.join(__import__('os').path.dirname(__import__('os').path.abspath(__file__)),'p09_weighted_gillespie_loop_closure.py')+'').read().split("def ref_rates(")[0])
import networkx as nx, itertools, collections, time
def ref_spec(G,st,H,J,gw):
    st=dict(st); out=collections.defaultdict(float)
    for u in G:
        for a,b,d in H.edges(data=True):
            if st[u]==a:
                w=d['rate']*gw(('s',a,b),u)
                if w>0:
                    t=dict(st); t[u]=b; out[tuple(sorted(t.items(),key=str))]+=w
        for v in G.neighbors(u):
            for (a,b),(a2,c),d in J.edges(data=True):
                if st[u]==a and st[v]==b:
                    w=d['rate']*gw(('n',(a,b),(a2,c)),(u,v))
                    if w>0:
                        t=dict(st); t[v]=c; out[tuple(sorted(t.items(),key=str))]+=w
    return out
def check_spec(G,H,J,IC,tmax,gw):
    fn=lambda: EoN.Gillespie_simple_contagion(G,H,J,dict(IC),return_statuses=sorted({s for s in IC.values()}|set(H.nodes())|{x for n in J.nodes() for x in n}),tmax=tmax)
    runs=explore(fn,0)
    seg,rate=analyse(runs); bad=[]
    norm=lambda st: tuple(sorted(dict(st).items(),key=str))
    for (key,st),dist in seg.items():
        if ('END',) in dist: continue
        dist={k2[1]:v for k2,v in dist.items()}
        R=ref_spec(G,st,H,J,gw); RT=sum(R.values())
        for nxt,p in dist.items():
            want=R.get(norm(nxt),0)/RT if RT>0 else 0
            if abs(p-want)>1e-9: bad.append(('PROB',st,nxt,p,want))
        for nxt,r in R.items():
            if not any(norm(k)==nxt for k in dist): bad.append(('MISSING',st,nxt))
    for st,rs in rate.items():
        RT=sum(ref_spec(G,st,H,J,gw).values())
        for r in rs:
            if abs(r-RT)>1e-9: bad.append(('RATE',st,r,RT))
    return len(runs),len(seg),bad
def specs():
    # SIRS
    H=nx.DiGraph(); H.add_edge('I','R',rate=0.7); H.add_edge('R','S',rate=0.2)
    J=nx.DiGraph(); J.add_edge(('I','S'),('I','I'),rate=0.3)
    yield 'SIRS',H,J,'SIR'
    # SEIR weighted
    H=nx.DiGraph(); H.add_edge('E','I',rate=0.6,weight_label='nw'); H.add_edge('I','R',rate=0.1)
    J=nx.DiGraph(); J.add_edge(('I','S'),('I','E'),rate=0.3,weight_label='ew')
    yield 'SEIRw',H,J,'SEIR'
    # competing: two transitions out of S pair
    H=nx.DiGraph(); H.add_edge('A','S',rate=0.5); H.add_edge('B','S',rate=0.4)
    J=nx.DiGraph(); J.add_edge(('A','S'),('A','A'),rate=0.3); J.add_edge(('B','S'),('B','B'),rate=0.9,weight_label='ew'); J.add_edge(('A','B'),('A','A'),rate=0.2)
    yield 'compete',H,J,'SAB'
tot=0;allbad=[]
t0=time.time()
graphs=[]
Gu=nx.Graph(); Gu.add_edge(0,1,ew=0.5); Gu.add_edge(1,2,ew=1.3); Gu.add_edge(0,2,ew=0.2)
Gd=nx.DiGraph(); Gd.add_edge(0,1,ew=0.5); Gd.add_edge(1,0,ew=0.8); Gd.add_edge(1,2,ew=1.3); Gd.add_edge(2,0,ew=0.2)
for G in (Gu,Gd):
    nx.set_node_attributes(G,{0:1.0,1:0.6,2:2.5},'nw')
    for name,H,J,stats in specs():
        def gw(tr,actor,G=G,H=H,J=J):
            if tr[0]=='s':
                d=H[tr[1]][tr[2]]; return G.nodes[actor][d['weight_label']] if 'weight_label' in d else 1
            d=J[tr[1]][tr[2]]; return G[actor[0]][actor[1]][d['weight_label']] if 'weight_label' in d else 1
        for ic in itertools.product(stats,repeat=3):
            IC=dict(zip(G.nodes(),ic))
            n,s,bad=check_spec(G,H,J,IC,3.5,gw); tot+=n
            for b in bad: allbad.append((G.is_directed(),name,ic)+b)
print('runs',tot,'bad',len(allbad),'%.1fs'%(time.time()-t0))
for b in allbad[:8]: print(b)
