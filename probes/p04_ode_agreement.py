import EoN, networkx as nx, numpy as np, time, warnings
warnings.filterwarnings('ignore')
G=nx.Graph([(0,1),(1,2),(2,3),(3,0),(0,2),(3,4),(4,5)])
tau,gamma,rho=0.7,0.4,0.2
kw=dict(rho=rho,tmax=8,tcount=17)
res={}
for name in ['EBCM_from_graph','SIR_compact_pairwise_from_graph','SIR_super_compact_pairwise_from_graph','SIR_effective_degree_from_graph','SIR_compact_effective_degree_from_graph','SIR_heterogeneous_pairwise_from_graph','SIR_heterogeneous_meanfield_from_graph','SIR_homogeneous_pairwise_from_graph']:
    t0=time.time()
    try:
        r=getattr(EoN,name)(G,tau,gamma,**kw)
        res[name]=np.array(r[1:4]); print(name, 'ok %.3fs'%(time.time()-t0), np.round(res[name][:,-1],6))
    except Exception as e: print(name,'RAISED',repr(e))
base=res['EBCM_from_graph']
for k,v in res.items(): print(k, np.abs(v-base).max())
# regular graph reductions
C=nx.cycle_graph(6)
for fam in [['SIR_heterogeneous_pairwise_from_graph','SIR_compact_pairwise_from_graph','SIR_homogeneous_pairwise_from_graph'],['SIS_heterogeneous_pairwise_from_graph','SIS_compact_pairwise_from_graph','SIS_homogeneous_pairwise_from_graph'],['SIR_heterogeneous_meanfield_from_graph','SIR_homogeneous_meanfield_from_graph'],['SIS_heterogeneous_meanfield_from_graph','SIS_homogeneous_meanfield_from_graph']]:
    out=[]
    for name in fam:
        try:
            r=getattr(EoN,name)(C,tau,gamma,**kw); out.append(np.array(r[1:3]))
        except Exception as e: print(name,'RAISED',repr(e)); 
    for o in out[1:]: print(fam[0][:3], np.abs(o-out[0]).max())
t0=time.time(); r=EoN.SIR_pair_based(C,tau,gamma,rho=rho,tmax=8,tcount=17); print('pair based C6 %.2fs'%(time.time()-t0), r[1][-1])
t0=time.time(); r=EoN.SIS_pair_based(C,tau,gamma,rho=rho,tmax=8,tcount=17); print('SIS pair based C6 %.2fs'%(time.time()-t0), r[1][-1])
r=EoN.SIR_individual_based(C,tau,gamma,rho=rho,tmax=8,tcount=17); print('ind based', r[1][-1])
