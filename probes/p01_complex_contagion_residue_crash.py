import EoN, networkx as nx, random
from collections import defaultdict
def rate_function(G, node, status, parameters):
    tau,gamma = parameters
    if status[node] == 'I': return gamma
    elif status[node] == 'S': return tau*len([nbr for nbr in G.neighbors(node) if status[nbr] == 'I'])
    else: return 0
def transition_choice(G, node, status, parameters):
    return 'R' if status[node]=='I' else 'I'
def get_influence_set(G, node, status, parameters):
    return {nbr for nbr in G.neighbors(node) if status[nbr] == 'S'}
bad=0
for seed in range(200):
    random.seed(seed)
    G = nx.fast_gnp_random_graph(30,0.2, seed=seed)
    IC = defaultdict(lambda: 'S'); IC[0]='I'; IC[1]='I'
    try:
        r = EoN.Gillespie_complex_contagion(G, rate_function, transition_choice, get_influence_set, IC, return_statuses=('S','I','R'), parameters=(0.1,0.3), tmax=float('inf'))
    except Exception as e:
        bad+=1; last=repr(e)
print('crashes', bad, 'of 200', last if bad else '')
