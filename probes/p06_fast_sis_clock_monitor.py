# scratch: exhaustive delay-menu exploration of fast_SIS with heapq+random seams and a clock-discipline monitor
import sys, heapq as _hq, time, math
import networkx as nx
import EoN, EoN.simulation as sim
INF=float('inf')
class Orc:
    def __init__(s,prefix,menu,budget,G,tau,gamma,tw,rw,tmax):
        s.prefix=prefix; s.trace=[]; s.menu=menu; s.budget=budget; s.ndraw=0
        s.draws=[]   # (kind, who, rate, value, now)
        s.G=G; s.tau=tau; s.gamma=gamma; s.tw=tw; s.rw=rw; s.tmax=tmax
        s.events=[]  # pushes/pops
        s.now=None
    def expovariate(s,rate):
        f=sys._getframe(1); name=f.f_code.co_name; loc=f.f_locals
        i=s.ndraw; s.ndraw+=1
        if i>=s.budget: val=1e9
        else:
            k=len(s.trace); c=s.prefix[k] if k<len(s.prefix) else 0
            s.trace.append((len(s.menu),c)); val=s.menu[c]+2.0**-(12+i)
        if name=='_find_next_trans_SIS_Markov':
            s.draws.append(('T',(loc['source'],loc['target']),rate,val,loc['time']))
        elif name=='_process_trans_SIS_Markov':
            s.draws.append(('R',loc['target'],rate,val,loc['time']))
        else: s.draws.append(('?',name,rate,val,None))
        return val
    # heapq seam
    def heappush(s,q,item):
        t,c,fn,args=item
        if 'trans' in fn.__name__: s.events.append(('push','T',t,(args[1],args[2]),len(s.draws)))
        else: s.events.append(('push','R',t,args[0],len(s.draws)))
        _hq.heappush(q,item)
    def heappop(s,q):
        it=_hq.heappop(q); t,c,fn,args=it
        if 'trans' in fn.__name__: s.events.append(('pop','T',t,(args[1],args[2]),len(s.draws)))
        else: s.events.append(('pop','R',t,args[0],len(s.draws)))
        return it
def run(G,tau,gamma,I0,tmax,menu,budget,prefix):
    o=Orc(prefix,menu,budget,G,tau,gamma,None,None,tmax)
    sim.random=o; sim.heapq=o
    try: out=EoN.fast_SIS(G,tau,gamma,initial_infecteds=list(I0),tmax=tmax,return_full_data=True)
    finally:
        import random,heapq; sim.random=random; sim.heapq=heapq
    return o,out
def monitor(o,out,G,tau,gamma,I0,tmax):
    # replay the logged seam events and check discipline
    status={v:'S' for v in G}; until={v:-INF for v in G}   # infectious-until
    pending={}   # (u,v)-> time
    lastcand={}  # (u,v)-> last candidate time in current period of u
    errs=[]
    di=0
    evs=o.events; n=len(evs)
    # process sequentially: pops define "now"
    i=0
    pend_rec={}
    def check_cov(now):
        for u in G:
            if status[u]!='I': continue
            for v in G.neighbors(u):
                ru=until[u]; rv=until[v] if status[v]=='I' else now
                if (u,v) in pending: continue
                # no live clock: must be justified
                if rv>=ru: continue
                lc=lastcand.get((u,v))
                if lc is not None and lc>=min(ru,tmax): continue
                if tau==0: continue
                errs.append(('COVER',now,u,v,ru,rv,lc))
    now=None
    while i<n:
        e=evs[i]
        if e[0]=='pop':
            if now is not None: check_cov(now)
            now=e[2]
            if e[1]=='R':
                u=e[3]
                if abs(until[u]-now)>1e-12: errs.append(('RECTIME',u,now,until[u]))
                status[u]='S'
                for k in [k for k in pending if k[0]==u]: errs.append(('STALE',k,now)) 
            else:
                u,v=e[3]
                if u is not None:
                    if pending.get((u,v))!=now: errs.append(('POPMISMATCH',u,v,now,pending.get((u,v))))
                    pending.pop((u,v),None)
                    if status[u]!='I': errs.append(('DEADSOURCE',u,v,now))
                if status[v]=='S':
                    status[v]='I'  # until set when R draw seen
                    newinf=v
                    for w in G.neighbors(v): lastcand.pop((v,w),None)
            # consume following pushes until next pop
            j=i+1
            d0=evs[i][4]
            while j<n and evs[j][0]=='push':
                p=evs[j]
                if p[1]=='R':
                    u=p[3]; until[u]=p[2]
                else:
                    u,v=p[3]; T=p[2]
                    if (u,v) in pending: errs.append(('DOUBLE',u,v,now))
                    pending[(u,v)]=T
                j+=1
            # examine draws made during this handler: indices d0..(next event's draw index)
            d1=evs[j][4] if j<n else len(o.draws)
            for d in o.draws[d0:d1]:
                kind,who,rate,val,tm=d
                if kind=='R':
                    if abs(rate-gamma)>1e-12: errs.append(('RATE_R',who,rate))
                    until[who]=now+val   # may be beyond tmax (not pushed)
                elif kind=='T':
                    u,v=who
                    if abs(rate-tau)>1e-12: errs.append(('RATE_T',who,rate))
                    # candidate anchors: now or until[v]
                    rv=until[v] if status[v]=='I' else now
                    cands=[now+val, max(now,rv)+val]
                    lastcand[(u,v)]=('vals',now,val)
            # resolve lastcand vals: if a push for (u,v) exists use its time; else take final candidate = anchor unknown: accept either anchor
            for k,vv in list(lastcand.items()):
                if isinstance(vv,tuple):
                    _,tnow,val=vv
                    if k in pending and pending[k]>=tnow:
                        T=pending[k]; A=T-val
                        rv=until[k[1]] if status[k[1]]=='I' else tnow
                        if not (tnow-1e-9<=A<=max(tnow,rv)+1e-9): errs.append(('ANCHOR',k,tnow,A,rv))
                        lastcand[k]=T
                    else:
                        rv=until[k[1]] if status[k[1]]=='I' else tnow
                        lastcand[k]=max(tnow,rv)+val   # most generous legit candidate
            i=j
        else:
            if e[1]=='T' and e[3][0] is None: i+=1
            else:
                errs.append(('ORPHANPUSH',e)); i+=1
    return errs
def explore(G,tau,gamma,I0,tmax,menu,budget):
    stack=[[]]; n=0; bad=[]; outs=set()
    while stack:
        p=stack.pop(); o,out=run(G,tau,gamma,I0,tmax,menu,budget,p); n+=1
        errs=monitor(o,out,G,tau,gamma,I0,tmax)
        outs.add(tuple(out.I()))
        if errs: bad.append((p,errs[:3]))
        for i in range(len(p),len(o.trace)):
            for alt in range(1,o.trace[i][0]): stack.append([t[1] for t in o.trace[:i]]+[alt])
    return n,bad,len(outs)
for G,name in [(nx.path_graph(2),'P2'),(nx.path_graph(3),'P3'),(nx.complete_graph(3),'K3')]:
    t0=time.time()
    n,bad,no=explore(G,0.3,0.7,[0],6.0,[0.4,1.0,2.7],8)
    print(name,'executions',n,'distinct I-curves',no,'violating',len(bad),'%.1fs'%(time.time()-t0))
    for b in bad[:3]: print('  ',b)
