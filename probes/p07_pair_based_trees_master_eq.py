import itertools, numpy as np, networkx as nx, EoN, warnings, time
from scipy.linalg import expm
warnings.filterwarnings('ignore')
def master(G, nodes, tauf, gamf, I0, R0, times):
    n=len(nodes); idx={v:i for i,v in enumerate(nodes)}
    states=list(itertools.product('SIR',repeat=n)); sidx={s:i for i,s in enumerate(states)}
    Q=np.zeros((len(states),len(states)))
    for s in states:
        a=sidx[s]
        for v in nodes:
            i=idx[v]
            if s[i]=='I':
                t=list(s); t[i]='R'; b=sidx[tuple(t)]; r=gamf(v); Q[a,b]+=r; Q[a,a]-=r
                for w in G.neighbors(v):
                    j=idx[w]
                    if s[j]=='S':
                        t=list(s); t[j]='I'; b=sidx[tuple(t)]; r=tauf(v,w); Q[a,b]+=r; Q[a,a]-=r
    s0=tuple('I' if v in I0 else 'R' if v in R0 else 'S' for v in nodes)
    p0=np.zeros(len(states)); p0[sidx[s0]]=1
    out=[]
    cnt=np.array([[s.count(c) for s in states] for c in 'SIR'])
    for t in times:
        p=p0@expm(Q*(t-times[0])); out.append(cnt@p)
    return np.array(out).T
worst=0
t0=time.time(); ncase=0
for n in range(2,6):
    for T in nx.nonisomorphic_trees(n):
        nodes=list(T.nodes())
        for k in (1,2):
            for I0 in itertools.combinations(nodes,k):
                times=np.linspace(0,4,9)
                ref=master(T,nodes,lambda u,v:0.8,lambda u:0.5,set(I0),set(),times)
                r=EoN.SIR_pair_based_pure_IC(T,0.8,0.5,list(I0),tmax=4,tcount=9)
                d=max(np.abs(np.array(r[1:4])-ref).max(),0); worst=max(worst,d); ncase+=1
print('unweighted trees<=5: cases',ncase,'worst',worst,'%.1fs'%(time.time()-t0))
# with initial recovered
T=nx.path_graph(4)
ref=master(T,list(T),lambda u,v:0.8,lambda u:0.5,{1},{3},np.linspace(0,4,9))
r=EoN.SIR_pair_based_pure_IC(T,0.8,0.5,[1],initial_recovereds=[3],tmax=4,tcount=9)
print('with R0', np.abs(np.array(r[1:4])-ref).max())
# weighted, custom label
T=nx.star_graph(3)
w={(0,1):0.5,(0,2):1.3,(0,3):2.0}; nw={0:1.0,1:0.6,2:2.5,3:1.7}
for lab in ('w8','weight'):
    H=T.copy(); nx.set_edge_attributes(H,w,lab); nx.set_node_attributes(H,nw,'rw')
    ref=master(H,list(H),lambda u,v:0.8*H[u][v][lab],lambda u:0.5*nw[u],{1},set(),np.linspace(0,4,9))
    r=EoN.SIR_pair_based_pure_IC(H,0.8,0.5,[1],tmax=4,tcount=9,transmission_weight=lab,recovery_weight='rw')
    print('weighted label',lab, np.abs(np.array(r[1:4])-ref).max())
# a cycle: should NOT be exact (sanity that oracle discriminates)
C=nx.cycle_graph(4)
ref=master(C,list(C),lambda u,v:0.8,lambda u:0.5,{0},set(),np.linspace(0,4,9))
r=EoN.SIR_pair_based_pure_IC(C,0.8,0.5,[0],tmax=4,tcount=9)
print('cycle (not exact expected)', np.abs(np.array(r[1:4])-ref).max())
