import EoN, networkx as nx, numpy as np, random, warnings
warnings.filterwarnings('ignore')
def t(name, f):
    try:
        r=f(); print(name,'->',r)
    except Exception as e:
        print(name,'RAISED',type(e).__name__,e)
G=nx.path_graph(4)
random.seed(1)
t('fast_SIR init rec row0', lambda: [a[0] for a in EoN.fast_SIR(G,1,1,initial_infecteds=[0],initial_recovereds=[3])])
t('Gillespie_SIR init rec row0', lambda: [a[0] for a in EoN.Gillespie_SIR(G,1,1,initial_infecteds=[0],initial_recovereds=[3])])
t('discrete_SIR init rec row0', lambda: [a[0] for a in EoN.discrete_SIR(G,args=(0.5,),initial_infecteds=[0],initial_recovereds=[3])])
def f():
    s=EoN.fast_SIR(G,1,1,initial_infecteds=[0],initial_recovereds=[3],return_full_data=True)
    return s.node_history(3), s.t()[:3], s.S()[:3], s.R()[:3], s.get_statuses(time=0)
t('fast_SIR full init rec', f)
def f():
    s=EoN.Gillespie_SIS(G,1,1,initial_infecteds=[0],return_full_data=True,tmax=2)
    return s.transmissions()[:2]
t('Gillespie_SIS transmissions', f)
t('basic_discrete_SIR', lambda: EoN.basic_discrete_SIR(G,1.0,initial_infecteds=[0]))
H=nx.relabel_nodes(G,{0:'a',1:'b',2:'c',3:'d'})
t('SIS_individual_based relabel', lambda: [x[-1] for x in EoN.SIS_individual_based(H,1,1,rho=0.3,tmax=1,tcount=3)])
G2=nx.Graph(); G2.add_nodes_from([3,2,1,0]); G2.add_edges_from([(0,1),(1,2),(2,3)])
t('SIS_individual_based perm order star', lambda: [x[-1] for x in EoN.SIS_individual_based_pure_IC(G2,1,1,[0],tmax=1,tcount=3)])
t('SIS_individual_based natural', lambda: [x[-1] for x in EoN.SIS_individual_based_pure_IC(G,1,1,[0],tmax=1,tcount=3)])
t('SIR_hom_mf_from_graph rho', lambda: [x[0] for x in EoN.SIR_homogeneous_meanfield_from_graph(G,1,1,rho=0.25,tmax=1,tcount=3)])
t('SIR_ind_pure_IC', lambda: [x[0] for x in EoN.SIR_individual_based_pure_IC(G,1,1,[0],tmax=1,tcount=3)])
t('SIR_eff_deg init rec', lambda: [x[0] for x in EoN.SIR_effective_degree_from_graph(G,1,1,initial_infecteds=[0],initial_recovereds=[3],tmax=1,tcount=3)])
t('Attack_rate_discrete_from_graph', lambda: EoN.Attack_rate_discrete_from_graph(G,0.5,rho=0.25))
t('Attack_rate_cts_time_from_graph ii', lambda: EoN.Attack_rate_cts_time_from_graph(G,1,1,initial_infecteds=[0]))
t('Gillespie_SIR tau0 gamma0', lambda: EoN.Gillespie_SIR(G,0,0,initial_infecteds=[0]))
t('fast_SIR rho+node0', lambda: [a[0] for a in EoN.fast_SIR(G,1,1,initial_infecteds=0,rho=0.5)])
t('Gillespie_SIR rho+node0', lambda: [a[0] for a in EoN.Gillespie_SIR(G,1,1,initial_infecteds=0,rho=0.5)])
A=np.zeros((3,3)); A[1,1]=4; A[2,0]=1
B=A.copy()
t('SIR_effective_degree mutates', lambda: (EoN.SIR_effective_degree(A,1,0,1,1,tmax=1,tcount=3)[1][0], A.shape))
t('SIR_het_pairwise_from_graph full', lambda: [np.shape(x) for x in EoN.SIR_heterogeneous_pairwise_from_graph(G,1,1,rho=0.25,tmax=1,tcount=3,return_full_data=True)])
t('SIS_het_pairwise_from_graph full', lambda: [np.shape(x) for x in EoN.SIS_heterogeneous_pairwise_from_graph(G,1,1,rho=0.25,tmax=1,tcount=3,return_full_data=True)])
t('SIS_het_pairwise_from_graph', lambda: [x[0] for x in EoN.SIS_heterogeneous_pairwise_from_graph(G,1,1,rho=0.25,tmax=1,tcount=3)])
t('SIS_eff_deg full', lambda: [np.shape(x) for x in EoN.SIS_effective_degree_from_graph(G,1,1,rho=0.25,tmax=1,tcount=3,return_full_data=True)])
t('SIR_pair_based weight attr', lambda: 0)
