# scratch feasibility probe: choice-point oracle driving Gillespie_SIR, exhaustive DFS
import sys, time, math, itertools
from fractions import Fraction
import networkx as nx
import EoN, EoN.simulation as sim

class Abort(Exception): pass

class U:
    """lazy uniform on [lo,hi) seen through affine map a*u+b"""
    def __init__(s, orc, a=1.0, b=0.0): s.orc=orc; s.a=a; s.b=b
    def __mul__(s,c): return U(s.orc, s.a*c, s.b*c)
    __rmul__=__mul__
    def __sub__(s,c): return U(s.orc, s.a, s.b-c)
    def __add__(s,c): return U(s.orc, s.a, s.b+c)
    def __lt__(s,c):
        # a*u+b < c  <=> u < (c-b)/a   (a>0)
        thr=(c-s.b)/s.a
        return s.orc.split(thr)
class Oracle:
    def __init__(s, prefix): s.prefix=prefix; s.trace=[]; s.log=[]
    def choose(s, kind, probs, info=None):
        i=len(s.trace)
        c = s.prefix[i] if i<len(s.prefix) else 0
        s.trace.append((kind, tuple(probs), c, info))
        return c
    # uniform handling: keep current interval
    def random(s):
        s.lo, s.hi = 0.0, 1.0
        return U(s)
    def split(s, thr):
        lo,hi=s.lo,s.hi
        thr=min(max(thr,lo),hi)
        pT=(thr-lo)/(hi-lo); pF=1-pT
        if pT<=1e-12: s.lo=thr; return False
        if pF<=1e-12: s.hi=thr; return True
        c=s.choose('U',[pT,pF])
        if c==0: s.hi=thr; return True
        else: s.lo=thr; return False
    def choice(s, seq):
        n=len(seq)
        c=s.choose('choice',[1.0/n]*n)
        return seq[c]
    def expovariate(s, rate):
        f=sys._getframe(1)
        st=dict(f.f_locals.get('status',{}))
        s.log.append(('exp',rate,st))
        return 1.0
    def sample(s, pop, k):
        raise NotImplementedError
sys.setrecursionlimit(10000)
def run(fn, prefix):
    orc=Oracle(prefix)
    old=sim.random
    sim.random=orc
    try:
        out=fn()
    finally:
        sim.random=old
    return orc,out

def explore(fn):
    stack=[[]]; n=0; leaves=[]
    while stack:
        prefix=stack.pop()
        orc,out=run(fn,prefix)
        n+=1
        leaves.append((orc,out))
        for i in range(len(prefix), len(orc.trace)):
            kind,probs,c,info=orc.trace[i]
            for alt in range(1,len(probs)):
                stack.append([t[2] for t in orc.trace[:i]]+[alt])
    return n,leaves

G=nx.complete_graph(4)
t0=time.time()
n,leaves=explore(lambda: EoN.Gillespie_SIR(G,0.3,0.7,initial_infecteds=[0]))
print('executions',n,'time',time.time()-t0)
# total probability mass
tot=0
fs={}
for orc,out in leaves:
    p=1.0
    for kind,probs,c,info in orc.trace: p*=probs[c]
    tot+=p
    fs[out[3][-1]]=fs.get(out[3][-1],0)+p
print('mass',tot, fs)
