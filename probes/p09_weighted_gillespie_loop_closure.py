# scratch: per-state jump distribution of weighted Gillespie_SIR/SIS via oracle + loop closure, vs reference CTMC
import sys, time, itertools, collections
import networkx as nx, EoN, EoN.simulation as sim, random as _r
class Abort(Exception): pass
class U:
    def __init__(s,o,a=1.0,b=0.0): s.o=o;s.a=a;s.b=b
    def __mul__(s,c): return U(s.o,s.a*c,s.b*c)
    __rmul__=__mul__
    def __sub__(s,c): return U(s.o,s.a,s.b-c)
    def __lt__(s,c): return s.o.split((c-s.b)/s.a)
class Orc:
    def __init__(s,prefix,K): s.prefix=prefix; s.trace=[]; s.K=K; s.nexp=0; s.bound=[]
    def choose(s,kind,probs):
        i=len(s.trace); c=s.prefix[i] if i<len(s.prefix) else 0
        s.trace.append((kind,tuple(probs),c)); return c
    def random(s): s.lo,s.hi=0.0,1.0; return U(s)
    def split(s,thr):
        lo,hi=s.lo,s.hi; thr=min(max(thr,lo),hi); pT=(thr-lo)/(hi-lo)
        f=sys._getframe(2)
        inrej = f.f_code.co_name=='choose_random'
        if pT<=1e-12: out=False
        elif 1-pT<=1e-12: out=True
        else: out = (s.choose('U',[pT,1-pT])==0)
        if out: s.hi=thr
        else: s.lo=thr
        if inrej and not out:
            # rejected: loop closure -> cut path (mass accounted by caller as self-loop)
            s.trace.append(('REJECT',(),s.lastchoice)); raise Abort()
        return out
    def choice(s,seq):
        n=len(seq); s.lastchoice=len(s.trace); return seq[s.choose('choice',[1.0/n]*n)]
    def expovariate(s,rate):
        f=sys._getframe(1)
        st=tuple(sorted(f.f_locals['status'].items())) if 'status' in f.f_locals else None
        s.bound.append((len(s.trace),rate,st)); s.nexp+=1
        return 1.0
def run(fn,prefix,K):
    o=Orc(prefix,K); sim.random=o
    try:
        try: out=fn()
        except Abort: out=None
    finally: sim.random=_r
    return o,out
def explore(fn,K):
    stack=[[]]; runs=[]
    while stack:
        p=stack.pop(); o,out=run(fn,p,K); runs.append((o,out))
        for i in range(len(p),len(o.trace)):
            kind,probs,c=o.trace[i]
            for alt in range(1,len(probs)): stack.append([t[2] for t in o.trace[:i]]+[alt])
    return runs
def analyse(runs):
    # trie over full traces; each node: dict outcome->child ; leaves carry ('NEXT',state) at boundary, 'END', or ('LOOP',target_index)
    seg=collections.defaultdict(lambda: collections.defaultdict(float)); rate={}
    # group runs by segment instance (prefix up to boundary index)
    inst=collections.defaultdict(list)
    for o,out in runs:
        b=o.bound
        for j in range(len(b)):
            i0,r,st=b[j]; rate.setdefault(st,set()).add(round(r,12))
            i1=b[j+1][0] if j+1<len(b) else len(o.trace)
            key=tuple(t[2] for t in o.trace[:i0])
            inner=o.trace[i0:i1]
            if j+1<len(b): leaf=('NEXT',b[j+1][2])
            elif out is None: leaf=('LOOP',inner[-1][2]-i0)  # relative index of loop target
            else: leaf=('END',)
            inst[(key,st)].append(([t for t in inner if t[0]!='REJECT'],leaf))
    for k,paths in inst.items():
        # build trie
        root={}
        for inner,leaf in paths:
            node=root
            for d,(kind,probs,c) in enumerate(inner):
                node.setdefault('probs',probs); node.setdefault('kids',{})
                node=node['kids'].setdefault(c,{})
            node['leaf']=leaf
        def val(node,depth):
            # returns dict leaf->prob, with LOOP leaves targeting depth<=current resolved at target
            if 'leaf' in node: return {node['leaf']:1.0}
            acc=collections.defaultdict(float)
            for c,kid in node['kids'].items():
                for lf,p in val(kid,depth+1).items(): acc[lf]+=node['probs'][c]*p
            q=acc.pop(('LOOP',depth),0.0)
            if q>0:
                for lf in acc: acc[lf]/=(1-q)
            return acc
        for lf,p in val(root,0).items(): seg[k][lf]+=p
    return seg,rate
def ref_rates(G,st,tau,gamma,tw,rw,sis):
    st=dict(st); out=collections.defaultdict(float)
    for u in G:
        if st.get(u,'S')=='I':
            t=dict(st); t[u]='S' if sis else 'R'
            out[tuple(sorted(t.items()))]+=gamma*(G.nodes[u][rw] if rw else 1)
            for v in G.neighbors(u):
                if st.get(v,'S')=='S':
                    t=dict(st); t[v]='I'; out[tuple(sorted(t.items()))]+=tau*(G[u][v][tw] if tw else 1)
    return out
def check(G,tau,gamma,I0,tw,rw,sis,tmax):
    if sis: fn=lambda: EoN.Gillespie_SIS(G,tau,gamma,initial_infecteds=list(I0),transmission_weight=tw,recovery_weight=rw,tmax=tmax)
    else: fn=lambda: EoN.Gillespie_SIR(G,tau,gamma,initial_infecteds=list(I0),transmission_weight=tw,recovery_weight=rw,tmax=tmax)
    runs=explore(fn,0); seg,rate=analyse(runs); bad=[]
    full=lambda st: tuple(sorted({**{v:'S' for v in G},**dict(st)}.items()))
    for (key,st),dist in seg.items():
        q=0.0; tot=sum(dist.values())
        R=ref_rates(G,full(st),tau,gamma,tw,rw,sis); RT=sum(R.values())
        if ('END',) in dist: continue
        dist={k2[1]:v for k2,v in dist.items()}
        if abs(tot+q-1)>1e-9: bad.append(('MASS',st,tot,q))
        for nxt,p in dist.items():
            pn=p/(1-q); want=R.get(full(nxt),0)/RT if RT>0 else 0
            if abs(pn-want)>1e-9: bad.append(('PROB',st,nxt,pn,want))
        for nxt,r in R.items():
            if r>0 and not any(full(k)==nxt for k in dist): bad.append(('MISSING',st,nxt))
    for st,rs in rate.items():
        R=ref_rates(G,full(st),tau,gamma,tw,rw,sis); RT=sum(R.values())
        for r in rs:
            if abs(r-RT)>1e-9: bad.append(('RATE',st,r,RT))
    return len(runs),len(seg),bad
G=nx.Graph(); G.add_edge(0,1,w=0.5); G.add_edge(1,2,w=1.3); G.add_edge(0,2,w=0.2); G.add_edge(2,3,w=0.0)
nx.set_node_attributes(G,{0:1.0,1:0.6,2:2.5,3:0.1},'rw')
for sis,tmax in [(False,float('inf')),(True,4.5)]:
  for tw,rw in [(None,None),('w',None),(None,'rw'),('w','rw')]:
    t0=time.time(); n,s,bad=check(G,0.3,0.7,[0],tw,rw,sis,tmax)
    print('SIS' if sis else 'SIR',tw,rw,'runs',n,'segments',s,'bad',len(bad),'%.1fs'%(time.time()-t0)); 
    for b in bad[:3]: print('   ',b)
