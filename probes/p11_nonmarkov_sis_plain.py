import itertools, heapq, time
import networkx as nx, numpy as np, EoN
class Tab:
    def __init__(s,prefix): s.prefix=prefix; s.trace=[]; s.n=0
    def pick(s,dom):
        k=len(s.trace); c=s.prefix[k] if k<len(s.prefix) else 0
        s.trace.append((len(dom),c)); return dom[c]
DUR=[1.0,2.5]
def lists(d): # sorted delay lists below duration
    base=[0.3,0.8,1.9]
    xs=[b for b in base if b<d]
    out=[[],xs[:1],xs[:2]] if len(xs)>=2 else [[],xs[:1]]
    return out
def run(G,I0,tmax,prefix,budget):
    tb=Tab(prefix); log=[]   # log of infections' tables in order of calls
    cnt=[0]
    def rf(u):
        cnt[0]+=1; j=cnt[0]
        d=tb.pick(DUR)+2.0**-(10+j) if cnt[0]<=budget else 1e9
        log.append(('dur',u,d)); return d
    def tf(u,v,d):
        if d>=1e8: l=[]
        else:
            l=[x+2.0**-(20+len(log)) for x in tb.pick(lists(d))]
        log.append(('del',u,v,l)); return l
    sim=EoN.fast_nonMarkov_SIS(G,trans_time_fxn=tf,rec_time_fxn=rf,initial_infecteds=list(I0),tmax=tmax,return_full_data=True)
    arr=None
    return tb,log,sim
def plain(G,I0,tmax,log):
    # consume the same tables in the same order: the k-th infection event uses the k-th 'dur' entry and following 'del' entries for that node
    # build per-infection records in order
    recs=[]; i=0
    while i<len(log):
        assert log[i][0]=='dur'; u=log[i][1]; d=log[i][2]; dl={}; i+=1
        while i<len(log) and log[i][0]=='del': dl[log[i][2]]=log[i][3]; i+=1
        recs.append((u,d,dl))
    status={v:'S' for v in G}; ev=[]; c=0; hist=[]; k=0
    for u in I0: heapq.heappush(ev,(0,c,'inf',None,u)); c+=1
    while ev:
        t,_,kind,src,v=heapq.heappop(ev)
        if t>=tmax: continue
        if kind=='rec': status[v]='S'; hist.append((t,'rec',None,v))
        else:
            if status[v]!='S': continue
            status[v]='I'; hist.append((t,'inf',src,v))
            if k>=len(recs): return None,'code made fewer infections than reference'
            u,d,dl=recs[k]; k+=1
            if u!=v: return None,('order mismatch',u,v)
            heapq.heappush(ev,(t+d,c,'rec',None,v)); c+=1
            for w in G.neighbors(v):
                for x in dl.get(w,[]): heapq.heappush(ev,(t+x,c,'inf',v,w)); c+=1
    return hist,None
def check(G,I0,tmax,budget):
    stack=[[]]; n=0; bad=[]
    while stack:
        p=stack.pop(); tb,log,sim=run(G,I0,tmax,p,budget); n+=1
        hist,err=plain(G,I0,tmax,log)
        if err: bad.append((p,err))
        else:
            obs=[]
            for t,u,v in sim.transmissions(): obs.append((t,'inf',u,v))
            for v in G:
                ts,ss=sim.node_history(v)
                for t,s in list(zip(ts,ss))[1:]:
                    if s=='S': obs.append((t,'rec',None,v))
            if sorted(obs,key=str)!=sorted(hist,key=str): bad.append((p,sorted(obs,key=str)[:6],sorted(hist,key=str)[:6]))
        for i in range(len(p),len(tb.trace)):
            for alt in range(1,tb.trace[i][0]): stack.append([t[1] for t in tb.trace[:i]]+[alt])
    return n,bad
t0=time.time(); tot=0; allbad=[]
for G in [nx.path_graph(2),nx.path_graph(3)]:
    for I0 in [(0,),(1,),(0,1)]:
        n,bad=check(G,I0,6.0,3); tot+=n; allbad+=[(G.number_of_edges(),I0)+b for b in bad]
print('executions',tot,'violations',len(allbad),'%.1fs'%(time.time()-t0))
for b in allbad[:5]: print(b)
