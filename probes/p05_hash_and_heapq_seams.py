import itertools, networkx as nx, EoN, EoN.simulation as sim, heapq, random
class L:
    __slots__=('name','h')
    def __init__(s,name,h): s.name=name; s.h=h
    def __hash__(s): return s.h
    def __eq__(s,o): return s is o
    def __repr__(s): return s.name
    def __lt__(s,o): return s.name<o.name
orders=set()
for perm in itertools.permutations(range(3)):
    ls=[L('n%d'%i,perm[i]) for i in range(3)]
    orders.add(tuple(x.name for x in set(ls)))
print(len(orders),'distinct set orders from 6 hash assignments')
# heapq seam
class HQ:
    def __init__(s): s.log=[]
    def heappush(s,q,item): s.log.append(('push',item[0],item[2].__name__, item[3][1:3] if 'trans' in item[2].__name__ else item[3][0:1])); heapq.heappush(q,item)
    def heappop(s,q): it=heapq.heappop(q); s.log.append(('pop',it[0],it[2].__name__)); return it
hq=HQ(); sim.heapq=hq
random.seed(3)
G=nx.path_graph(3)
print(EoN.fast_SIS(G,1.0,1.0,initial_infecteds=[0],tmax=1.5))
for e in hq.log[:12]: print(e)
