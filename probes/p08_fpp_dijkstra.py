import itertools, heapq, time, math
import networkx as nx, numpy as np
import EoN
INF=float('inf')
class Tab:
    def __init__(s,prefix): s.prefix=prefix; s.trace=[]; s.delay={}; s.dur={}
    def pick(s,dom):
        k=len(s.trace); c=s.prefix[k] if k<len(s.prefix) else 0
        s.trace.append((len(dom),c)); return dom[c]
D=[0,1,2,INF]; E=[0,1,2,INF]
def run(G,I0,R0,tmin,tmax,prefix,full):
    tb=Tab(prefix)
    def tf(u,v):
        if (u,v) not in tb.delay: tb.delay[(u,v)]=tb.pick(D)
        return tb.delay[(u,v)]
    def rf(u):
        if u not in tb.dur: tb.dur[u]=tb.pick(E)
        return tb.dur[u]
    out=EoN.fast_nonMarkov_SIR(G,trans_time_fxn=tf,rec_time_fxn=rf,initial_infecteds=list(I0),initial_recovereds=list(R0),tmin=tmin,tmax=tmax,return_full_data=full)
    return tb,out
def ref(G,tb,I0,R0,tmin,tmax):
    # Dijkstra with lazily known tables; unknown entries requested => flag
    dist={v:INF for v in G}; missing=[]
    pq=[(tmin,i,v) for i,v in enumerate(I0)]; heapq.heapify(pq); done=set(); c=len(pq)
    for v in I0: dist[v]=tmin
    while pq:
        d,_,u=heapq.heappop(pq)
        if u in done or d>dist[u]: continue
        done.add(u)
        if d>=tmax: continue
        if u not in tb.dur: missing.append(('dur',u)); continue
        for v in G.neighbors(u):
            if v in R0 or v in done: continue
            if (u,v) not in tb.delay:
                # code only asks for neighbours susceptible at u's infection: those with dist > d (or == d but not yet processed)
                if dist[v]>d: missing.append(('delay',u,v))
                continue
            w=tb.delay[(u,v)]
            if w<=tb.dur[u] and d+w<dist[v]:
                dist[v]=d+w; c+=1; heapq.heappush(pq,(d+w,c,v))
    inf={v:t for v,t in dist.items() if t<tmax}
    rec={v:t+tb.dur[v] for v,t in inf.items() if v in tb.dur and t+tb.dur[v]<tmax}
    return inf,rec,missing
def check(G,I0,R0,tmin,tmax):
    stack=[[]]; n=0; bad=[]
    while stack:
        p=stack.pop(); tb,sim=run(G,I0,R0,tmin,tmax,p,True); n+=1
        inf,rec,missing=ref(G,tb,I0,R0,tmin,tmax)
        # observed
        oinf={};orec={}
        for v in G:
            ts,ss=sim.node_history(v)
            for t,s in zip(ts,ss):
                if s=='I': oinf[v]=t
                if s=='R' and v not in R0: orec[v]=t
        # zero-duration at tmin loses I entry: recover from transmissions
        for t,u,v in sim.transmissions(): oinf.setdefault(v,t)
        if oinf!=inf or orec!=rec or missing:
            bad.append((p,dict(tb.delay),dict(tb.dur),oinf,inf,orec,rec,missing))
        else:
            for t,u,v in sim.transmissions():
                if u is None: continue
                if not (G.has_edge(u,v) and tb.delay[(u,v)]<=tb.dur[u] and inf[u]+tb.delay[(u,v)]==inf[v]): bad.append((p,'infector',t,u,v))
        for i in range(len(p),len(tb.trace)):
            for alt in range(1,tb.trace[i][0]): stack.append([t[1] for t in tb.trace[:i]]+[alt])
    return n,bad
t0=time.time(); tot=0; allbad=[]
for G in [nx.path_graph(2),nx.path_graph(3),nx.complete_graph(3)]:
    nodes=list(G)
    for k in (1,2):
        for I0 in itertools.combinations(nodes,k):
            for R0 in [()]+[(r,) for r in nodes if r not in I0]:
                for tmin,tmax in [(0,INF),(1.5,2.5),(0,2)]:
                    n,bad=check(G,I0,R0,tmin,tmax); tot+=n
                    for b in bad: allbad.append((G.number_of_edges(),I0,R0,tmin,tmax)+tuple(b))
print('executions',tot,'violations',len(allbad),'%.1fs'%(time.time()-t0))
for b in allbad[:6]: print(b)
