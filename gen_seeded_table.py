#!/venv/bin/python
"""Rewrites the table of seeded changes in DESIGN.md (between the SEEDED markers) from seeded/*/meta.json."""
import json, glob, os, re
rows = []
for f in sorted(glob.glob("/verif/seeded/*/meta.json")):
    m = json.load(open(f))
    rows.append("| `%s` | %s | %s | %s | %s |" % (m["id"], m["breaks_property"], m["needs_to_manifest"].replace("|", "/"),
                                                ", ".join(m["caught_by_checks"]) or "—", m["what_was_run"].replace("|", "/")))
tab = "| id | breaks | change and what it needs to manifest | caught by (quick tier) | observed |\n|---|---|---|---|---|\n" + "\n".join(rows)
p = "/verif/DESIGN.md"; s = open(p).read()
a = s.index("<!-- SEEDED-BEGIN -->") + len("<!-- SEEDED-BEGIN -->"); b = s.index("<!-- SEEDED-END -->")
s = s[:a] + "\n" + tab + "\n" + s[b:]
open(p, "w").write(s)
print(len(rows), "rows")
