#!/bin/bash
# confirm_tests_queue.sh <worktree> <patch>...  : for each patch run the pinned suite in the scratch worktree; log summary lines
wt=$1; shift
for p in "$@"; do
  cd $wt && git checkout -q -- EoN && git apply $p && r=$(PYTHONPATH=$wt timeout 3000 /venv/bin/python -W ignore -m pytest -q -p no:cacheprovider --timeout=900 --continue-on-collection-errors -n 4 EoN/tests 2>&1 | tail -1); git checkout -q -- EoN
  echo "$p :: $r" >> /tmp/mut/tests_confirmed.log
done
