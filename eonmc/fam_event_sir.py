"""Driver family: event-driven SIR (fast_nonMarkov_SIR, fast_SIR) - C11, C01(fast part).

User delay/duration rules are lazily enumerated tables (every distinct behaviour of every
rule over the menu is explored); the reference is first-passage percolation (Dijkstra).
Riders: C04 C05 C09 C10 C19.
"""
import itertools, math
import numpy as np
from . import import_eon
from .core import explore, run_once, CapHit, HarnessError
from .common import V, Acc, hsh
from .ref import num, INF, fpp
from . import graphs as gr
from . import monitors as mon

BIG = 1e9


def classify(spec):
    f = [spec.get("form", "sep")]
    if spec.get("R0"):
        f.append("R0")
    if spec.get("tw") or spec.get("rw"):
        f.append("weighted")
    return "+".join(f)


def build_graph(spec):
    """Graph with a chosen node insertion order (decides neighbour iteration / queue order)."""
    import networkx as nx
    n = spec["n"]
    G = nx.DiGraph() if spec.get("directed") else nx.Graph()     # directed: transmission follows edge direction
    order = spec.get("node_order") or list(range(n))
    G.add_nodes_from(order)
    edges = [tuple(e) for e in spec["edges"]]
    eo = spec.get("edge_order")
    if eo:
        edges = [edges[i] for i in eo]
    G.add_edges_from(edges)
    tw, rw = spec.get("tw"), spec.get("rw")
    if tw:
        ws = gr.EDGE_W if spec.get("zero_w", True) else [w for w in gr.EDGE_W if w > 0]
        for i, (u, v) in enumerate([tuple(e) for e in spec["edges"]]):
            G[u][v][tw] = ws[i % len(ws)]
    if rw:
        for u in range(n):
            G.nodes[u][rw] = gr.NODE_W[u % len(gr.NODE_W)]
    return G


def observed_times(si, nodes, R0):
    oinf = {}; orec = {}
    for v in nodes:
        ts, ss = si.node_history(v)
        for t, s in zip(ts, ss):
            if s == "I":
                oinf[v] = t
            if s == "R" and v not in R0:
                orec[v] = t
    for t, u, v in si.transmissions():   # zero duration at tmin loses the I entry
        oinf.setdefault(v, t)
    return oinf, orec


def expected_arrays(N, I0, R0, tmin, inf, rec, count_R0=True):
    """Rows per distinct event time (ties collapsed)."""
    ev = []
    for v, t in inf.items():
        if v not in I0:
            ev.append((t, 0))
        elif t != tmin:
            ev.append((t, 0))
    for v, t in rec.items():
        ev.append((t, 1))
    times = sorted({t for t, _ in ev} | {tmin})
    S0 = N - len(I0) - len(R0); I_ = len(I0); R_ = len(R0)
    rows = []
    for t in times:
        for (a, k) in ev:
            if a == t:
                if k == 0:
                    S0 -= 1; I_ += 1
                else:
                    I_ -= 1; R_ += 1
        rows.append((t, S0, I_, R_))
    return rows


def check_fpp(A, prop, fn, cls, G, nodes, I0, R0, tmin, tmax, delay, duration, missing_ok, out_full, out_arr, prefix,
              count_R0=True):
    """Compare one execution with first-passage percolation on the tables it consulted."""
    nb = lambda u: list(G.neighbors(u))
    # reference with lazily known tables
    try:
        inf, rec = fpp(nodes, nb, delay, duration, I0, set(R0), tmin, tmax)
    except KeyError as e:
        A.add(V(prop, fn, cls, "duration_not_asked", "node %r was infected in the reference but its duration was never requested" % (e.args[0],), prefix))
        return None
    # a delay the reference needed but the code never asked for
    for u, tu in inf.items():
        for v in nb(u):
            if v in R0 or (u, v) in delay:
                continue
            if inf.get(v, INF) > tu or v not in inf:
                if not missing_ok(u, v):
                    A.add(V(prop, fn, cls, "delay_not_asked", "delay(%r,%r) never requested although %r was susceptible when %r was infected at %r" % (u, v, v, u, tu), prefix))
                    return None
    if out_full is not None:
        oinf, orec = observed_times(out_full, nodes, R0)
        if oinf != inf:
            A.add(V(prop, fn, cls, "infection_times", "infection times %r, first-passage percolation gives %r (delays %r durations %r)" % (oinf, inf, delay, duration), prefix, oinf, inf))
            return None
        if orec != rec:
            A.add(V(prop, fn, cls, "recovery_times", "recovery times %r, expected %r (durations %r)" % (orec, rec, duration), prefix, orec, rec))
            return None
        for t, u, v in out_full.transmissions():
            if u is None:
                continue
            ok = G.has_edge(u, v) and (u, v) in delay and delay[(u, v)] <= duration[u] and u in inf \
                and inf[u] + delay[(u, v)] == inf[v] and t == inf[v]
            if not ok:
                A.add(V(prop, fn, cls, "infector", "recorded infector %r of %r at %r is not a shortest-path predecessor (delays %r durations %r inf %r)" % (u, v, t, delay, duration, inf), prefix))
                return None
    if out_arr is not None:
        rows = expected_arrays(len(nodes), I0, R0, tmin, inf, rec)
        t = list(np.asarray(out_arr[0]).tolist()); cols = [list(np.asarray(c).tolist()) for c in out_arr[1:]]
        ct, cc = mon.collapse_ties(t, cols)
        got = list(zip(ct, *cc))
        want = [tuple(r) for r in rows]
        if got != want:
            A.add(V(prop, fn, cls, "arrays", "arrays %r, first-passage percolation gives %r" % (got, want), prefix, got, want))
            return None
    return inf, rec


# ------------------------------------------------------------------------------------------
# fast_nonMarkov_SIR under lazily enumerated user tables
# ------------------------------------------------------------------------------------------

TA = ("ta", 7); RA = ("ra",); JA = ("ja", "jb", 3)


def run_nonmarkov(spec, props=("C11",)):
    EoN, sim = import_eon()
    A = Acc()
    fn = "fast_nonMarkov_SIR"
    G = build_graph(spec)
    n = spec["n"]; nodes = list(range(n))
    I0 = list(spec["I0"]); R0 = list(spec.get("R0", []))
    tmin = num(spec.get("tmin", 0)); tmax = num(spec.get("tmax", "inf"))
    D = [num(x) for x in spec["menu"]]
    form = spec.get("form", "sep")
    full = bool(spec.get("full", True))
    cls = classify(spec) + (("+ret:" + spec["rettype"]) if spec.get("rettype") else "") + ("+directed" if spec.get("directed") else "")

    def call(orc, full_):
        tab = orc.ctx.setdefault("tab", {"delay": {}, "dur": {}, "sus": {}})

        rt = spec.get("rettype")
        conv = {None: (lambda x: x), "np": np.float64, "int": (lambda x: int(x) if x not in (INF, -INF) and float(x).is_integer() else x)}[rt]

        def tf(u, v):
            if (u, v) not in tab["delay"]:
                tab["delay"][(u, v)] = orc.pick("delay", D, info=("delay", u, v))
            return conv(tab["delay"][(u, v)])

        def rf(u):
            if u not in tab["dur"]:
                tab["dur"][u] = orc.pick("dur", D, info=("dur", u))
            return conv(tab["dur"][u])

        def joint(node, sus):
            sus = list(sus)
            tab["sus"][node] = sus
            d = rf(node)
            return {v: tf(node, v) for v in sus}, d
        kw = dict(initial_infecteds=list(I0), tmin=tmin, tmax=tmax, return_full_data=full_)
        if R0:
            kw["initial_recovereds"] = list(R0)
        # the documented extra-argument tuples: the user's functions have exactly these signatures
        bad = orc.ctx.setdefault("badargs", [])

        def tf_a(u, v, ta, tb):
            if (ta, tb) != TA:
                bad.append(("trans_time_fxn", (ta, tb), TA))
            return tf(u, v)

        def rf_a(u, ra):
            if (ra,) != RA:
                bad.append(("rec_time_fxn", (ra,), RA))
            return rf(u)

        def joint_a(node, sus, ja, jb, jc):
            if (ja, jb, jc) != JA:
                bad.append(("trans_and_rec_time_fxn", (ja, jb, jc), JA))
            return joint(node, sus)
        if form == "sep":
            return EoN.fast_nonMarkov_SIR(G, trans_time_fxn=tf, rec_time_fxn=rf, **kw)
        if form == "sep_args":
            return EoN.fast_nonMarkov_SIR(G, trans_time_fxn=tf_a, rec_time_fxn=rf_a, trans_time_args=TA, rec_time_args=RA, **kw)
        if form == "joint_args":
            return EoN.fast_nonMarkov_SIR(G, trans_and_rec_time_fxn=joint_a, trans_and_rec_time_args=JA, **kw)
        return EoN.fast_nonMarkov_SIR(G, trans_and_rec_time_fxn=joint, **kw)

    before = mon.snap(G)
    try:
        runs = list(explore(sim, lambda orc: call(orc, full), cap=spec.get("cap", 400000), stats=A.count))
    except CapHit as e:
        A.caps.append(str(e)); return A.result(props)
    A.execs = len(runs); A.selfchecks = A.count.pop("selfchecks", 0)
    if "C19" in props:
        for s, m in mon.c19_compare([before], [mon.snap(G)], ["G"]):
            A.add(V("C19", fn, cls, s, m))
    for r in runs:
        pre = r.chosen()
        if r.exc is not None:
            for p in ("C11", "C04"):
                if p in props:
                    A.add(V(p, fn, cls, "exception", "%s raised %r" % (fn, r.exc), pre))
            continue
        tab = r.ctx.get("tab", {"delay": {}, "dur": {}})
        delay = tab["delay"]; duration = tab["dur"]
        out = r.out
        if r.ctx.get("badargs") and "C11" in props:
            w, got, want = r.ctx["badargs"][0]
            A.add(V("C11", fn, cls, "callback_args", "%s received the extra arguments %r, the caller supplied %r" % (w, got, want), pre))
        zero_or_tie = True   # menus contain ties on purpose
        arrs = None
        if full:
            si = out
            arrs_full = [si.t(), si.S(), si.I(), si.R()]
        else:
            arrs = list(out)
        A.outcomes.add(hsh(mon.hist_of(out, nodes) if full else [a.tolist() for a in arrs]))
        A.count["rows_checked"] = A.count.get("rows_checked", 0) + 1
        if len(delay) > 0:
            A.nontrivial.add(pre)
        A.states.add(hsh((sorted(delay.items()), sorted(duration.items()))))
        if "C11" in props:
            res = check_fpp(A, "C11", fn, cls, G, nodes, I0, R0, tmin, tmax, delay, duration,
                            lambda u, v: False, out if full else None, arrs if not full else None, pre)
            if res:
                A.trans.add(hsh((tuple(sorted(res[0].items())), tuple(sorted(res[1].items())))))
        # riders ---------------------------------------------------------------------------
        if "C04" in props:
            a = arrs if arrs is not None else arrs_full
            durs_pos = all(d < INF for d in duration.values())
            for s, m in mon.c04(a, n, tmin, tmax, "SIR", moves=mon.SIR_MOVES if arrs is not None else None,
                                must_die_out=(tmax == INF and durs_pos)):
                A.add(V("C04", fn, cls, s, m, pre))
        if "C05" in props:
            if not full:
                for s, m in mon.c05_arrays(arrs, n, tmin, I0, R0, True, G=G):
                    A.add(V("C05", fn, cls, s, m, pre))
            else:
                busy = {v for v in I0 if duration.get(v) == 0}
                oi, orc_ = observed_times(out, nodes, R0)
                busy |= {v for v, t in oi.items() if t == tmin and v not in I0} | {v for v, t in orc_.items() if t == tmin}
                for s, m in mon.c05_full(out, nodes, tmin, I0, R0, True, busy_at_tmin=busy):
                    A.add(V("C05", fn, cls, s, m, pre))
        if "C09" in props and full:
            for s, m in mon.c09(out, G, tmin, I0, "SIR", ties=True):
                A.add(V("C09", fn, cls, s, m, pre))
        if "C10" in props and full:
            r2 = run_once(sim, lambda orc: call(orc, False), pre)
            if r2.chosen() != pre:
                A.add(V("C10", fn, cls, "draws_differ", "the two return modes consult the user rules differently", pre))
            elif r2.exc is not None:
                A.add(V("C10", fn, cls, "exception", "array mode raised %r" % (r2.exc,), pre))
            else:
                for s, m in mon.c10(out, list(r2.out), G, tmin, ["S", "I", "R"], {("S", "I"), ("I", "R")}, ties=True):
                    A.add(V("C10", fn, cls, s, m, pre))
    if runs:
        r = runs[len(runs) // 2]
        tab = r.ctx.get("tab", {"delay": {}, "dur": {}})
        A.sample = {"spec": spec, "choices": list(r.chosen()),
                    "delay_table": {"%s->%s" % k: v for k, v in tab["delay"].items()},
                    "duration_table": dict(tab["dur"])}
    return A.result(props)


# ------------------------------------------------------------------------------------------
# fast_SIR under an enumerating expovariate menu
# ------------------------------------------------------------------------------------------

def _who(frame):
    name = frame.f_code.co_name
    loc = frame.f_locals
    if name == "trans_time_fxn":
        if "source" in loc:
            return "delay", (loc["source"], loc["target"])
        return "delay", (loc["u"], loc["v"])
    if name == "rec_time_fxn":
        return "dur", loc["node"] if "node" in loc else loc["u"]
    if name == "_trans_and_rec_time_Markovian_const_trans_":
        return "dur", loc["node"]
    if name == "_truncated_exponential_":
        b = frame.f_back
        # the recipient is attributed afterwards from the logged random.sample outcome (order of the draws)
        return "trunc", (b.f_locals.get("node"), b.f_locals.get("v"), loc["T"])
    raise HarnessError("expovariate called from unexpected place %s" % name)


def run_fast_sir(spec, props=("C01",)):
    EoN, sim = import_eon()
    A = Acc()
    fn = "fast_SIR"
    G = build_graph(spec)
    n = spec["n"]; nodes = list(range(n))
    I0 = list(spec["I0"]); R0 = list(spec.get("R0", []))
    tmin = num(spec.get("tmin", 0)); tmax = num(spec.get("tmax", "inf"))
    tau = spec["tau"]; gamma = spec["gamma"]; tw = spec.get("tw"); rw = spec.get("rw")
    menu = spec["menu"]; full = bool(spec.get("full", True))
    fastpath = (tw is None and tau * gamma != 0)
    cls = ("fastpath" if fastpath else "weightedpath") + ("+R0" if R0 else "")
    frac = spec.get("trunc_menu", [0.25, 1.5])
    at = spec.get("argtype")
    cast = {None: (lambda x: x), "int": (lambda x: x if x in (INF, -INF) else int(x)), "np": np.float64,
            "npint": (lambda x: x if x in (INF, -INF) else np.int64(x))}[at]
    tau_a, gamma_a, tmin_a, tmax_a = cast(tau), cast(gamma), cast(tmin), cast(tmax)
    if at:
        cls = cls + "+argtype:" + at

    def pol(orc, rate, frame):
        kind, who = _who(frame)
        i = orc.n_exp
        jit = 2.0 ** -(12 + i)
        if kind == "trunc":
            node, v, T = who
            val = orc.pick("trunc", frac, info=("trunc", node, v)) * T + jit * 0.5
            orc.log.append(("draw", kind, (node, v), rate, val, T))
        else:
            val = orc.pick("exp", menu, info=(kind, who)) + jit
            orc.log.append(("draw", kind, who, rate, val, None))
        return val, None

    def call(orc, full_):
        kw = dict(initial_infecteds=list(I0), tmin=tmin_a, tmax=tmax_a, return_full_data=full_,
                  transmission_weight=tw, recovery_weight=rw)
        if R0:
            kw["initial_recovereds"] = list(R0)
        return EoN.fast_SIR(G, tau_a, gamma_a, **kw)

    before = mon.snap(G)
    try:
        runs = list(explore(sim, lambda orc: call(orc, full), exp=pol, cap=spec.get("cap", 400000), stats=A.count))
    except CapHit as e:
        A.caps.append(str(e)); return A.result(props)
    A.execs = len(runs); A.selfchecks = A.count.pop("selfchecks", 0)
    if "C19" in props:
        for s, m in mon.c19_compare([before], [mon.snap(G)], ["G"]):
            A.add(V("C19", fn, cls, s, m))
    wE = lambda u, v: (G[u][v][tw] if tw else 1.0)
    wN = lambda u: (G.nodes[u][rw] if rw else 1.0)
    recip_mass = {}      # fast path: (infection context) -> {recipient set: prob}
    for r in runs:
        pre = r.chosen()
        if r.exc is not None:
            for p in ("C01", "C04"):
                if p in props:
                    A.add(V(p, fn, cls, "exception", "fast_SIR raised %r" % (r.exc,), pre))
            continue
        delay = {}; duration = {}
        bad = False
        # unweighted fast path: the k-th truncated draw after a random.sample belongs to the k-th sampled recipient;
        # every recipient must get its own draw
        draws = []
        pending = None      # [node, recipients list, next index]
        cur_node = None
        for x in r.log:
            if x[0] == "draw" and x[1] == "dur":
                if pending is not None and pending[2] != len(pending[1]):
                    A.add(V("C01", fn, cls, "truncated_draw", "node %r infects %r but only %d truncated delays were drawn" % (pending[0], pending[1], pending[2]), pre)); bad_proto = True
                pending = None
                cur_node = x[2]
                draws.append(x[:6])
            elif x[0] == "sample":
                pending = [cur_node, list(x[2]), 0]
            elif x[0] == "draw" and x[1] == "trunc":
                if pending is None or pending[2] >= len(pending[1]):
                    A.add(V("C01", fn, cls, "truncated_draw", "a truncated delay was drawn that belongs to no sampled recipient (node %r)" % (cur_node,), pre))
                    draws.append(x[:6])
                else:
                    v_ = pending[1][pending[2]]; pending[2] += 1
                    draws.append((x[0], x[1], (pending[0], v_), x[3], x[4], x[5]))
            elif x[0] == "draw":
                draws.append(x[:6])
        if pending is not None and pending[2] != len(pending[1]):
            A.add(V("C01", fn, cls, "truncated_draw", "node %r infects %r but only %d truncated delays were drawn" % (pending[0], pending[1], pending[2]), pre))
        binoms = [x for x in r.log if x[0] == "binomial"]
        for (_, kind, who, rate, val, T) in draws:
            if kind == "dur":
                want = gamma * wN(who)
                if who in duration or abs(rate - want) > 1e-12:
                    A.add(V("C01", fn, cls, "recovery_draw", "duration of %r drawn with rate %r (expected one draw of rate %r)" % (who, rate, want), pre, rate, want)); bad = True
                duration[who] = val
            elif kind == "delay":
                u, v = who
                want = tau * wE(u, v)
                if who in delay or abs(rate - want) > 1e-12 or not G.has_edge(u, v):
                    A.add(V("C01", fn, cls, "transmission_draw", "delay %r->%r drawn with rate %r (expected one draw of rate %r)" % (u, v, rate, want), pre, rate, want)); bad = True
                delay[who] = val
            else:
                u, v = who
                if abs(rate - tau) > 1e-12 or who in delay or abs(T - duration.get(u, -1)) > 1e-12:
                    A.add(V("C01", fn, cls, "truncated_draw", "truncated delay %r->%r drawn with rate %r, T=%r" % (u, v, rate, T), pre)); bad = True
                t = val
                delay[who] = t - math.floor(t / T) * T
        # zero rates never call expovariate: they mean 'never'
        for u in nodes:
            if gamma * wN(u) == 0:
                duration.setdefault(u, INF)
        if bad and "C01" in props:
            continue
        out = r.out
        arrs = None if full else list(out)
        A.outcomes.add(hsh(mon.hist_of(out, nodes) if full else [a.tolist() for a in arrs]))
        A.count["rows_checked"] = A.count.get("rows_checked", 0) + 1
        if len(delay) > 0:
            A.nontrivial.add(pre)
        A.states.add(hsh((sorted(delay.items()), sorted(duration.items()))))
        if "C01" in props:
            # which sampling scheme this execution used is read off the draws (an implementation may legitimately
            # use the generic per-edge scheme for unweighted graphs too)
            fp_run = any(x[0] == "binomial" for x in r.log) or any(x[0] == "draw" and x[1] == "trunc" for x in r.log)
            if fp_run:
                # non-recipients of an infected node have no delay: they are 'inf' by construction
                missing_ok = lambda u, v: True
            else:
                missing_ok = lambda u, v: tau * wE(u, v) == 0
            res = check_fpp(A, "C01", fn, cls, G, nodes, I0, R0, tmin, tmax, delay, duration, missing_ok,
                            out if full else None, arrs, pre)
            if res:
                inf, rec = res
                A.trans.add(hsh((tuple(sorted(inf.items())), tuple(sorted(rec.items())))))
                # draw protocol: exactly the susceptible neighbours get a clock (weighted path)
                if not fp_run:
                    for u, tu in inf.items():
                        want = {v for v in G.neighbors(u) if v not in R0 and (v not in inf or inf[v] > tu) and tau * wE(u, v) > 0}
                        tied = {v for v in G.neighbors(u) if inf.get(v) == tu}   # infected at the same instant (only I0 at tmin): an unused extra clock is harmless
                        got = {v for (a, v) in delay if a == u}
                        if not (want <= got <= (want | tied)):
                            A.add(V("C01", fn, cls, "draw_protocol", "at the infection of %r delays were drawn for %r, susceptible neighbours with positive rate are %r" % (u, sorted(got), sorted(want)), pre, sorted(got), sorted(want)))
                            break
                    for u in duration:
                        if u not in inf and duration[u] != INF:
                            A.add(V("C01", fn, cls, "draw_protocol", "duration drawn for %r which is never infected" % (u,), pre))
                else:
                    # binomial protocol: n = #susceptible neighbours, p = 1-exp(-tau*duration)
                    cur = None
                    seen_b = 0
                    for x in r.log:
                        if x[0] == "draw" and x[1] == "dur":
                            cur = x[2]
                        elif x[0] == "binomial":
                            seen_b += 1
                            u = cur
                            nsus = len([v for v in G.neighbors(u) if v not in R0 and (v not in inf or inf[v] > inf[u])]) if u in inf else -1
                            ntied = len([v for v in G.neighbors(u) if u in inf and inf.get(v) == inf[u]])
                            pw = 1 - math.exp(-tau * duration[u])
                            if not (nsus <= x[1] <= nsus + ntied) or abs(x[2] - pw) > 1e-12:
                                A.add(V("C01", fn, cls, "binomial_protocol", "infection of %r: binomial(%r,%r) requested, expected n=%r susceptible neighbours, p=1-exp(-tau*duration)=%r" % (u, x[1], x[2], nsus, pw), pre, [x[1], x[2]], [nsus, pw]))
                                break
                    if seen_b != len(inf):
                        A.add(V("C01", fn, cls, "binomial_protocol", "%d binomial draws for %d infections" % (seen_b, len(inf)), pre))
        if "C04" in props:
            a = arrs if arrs is not None else [out.t(), out.S(), out.I(), out.R()]
            gam_pos = all(gamma * wN(u) > 0 for u in nodes)
            for s, m in mon.c04(a, n, tmin, tmax, "SIR", moves=mon.SIR_MOVES if arrs is not None else None,
                                must_die_out=(tmax == INF and gam_pos)):
                A.add(V("C04", fn, cls, s, m, pre))
        if "C05" in props:
            if not full:
                for s, m in mon.c05_arrays(arrs, n, tmin, I0, R0, True, G=G):
                    A.add(V("C05", fn, cls, s, m, pre))
            else:
                for s, m in mon.c05_full(out, nodes, tmin, I0, R0, True):
                    A.add(V("C05", fn, cls, s, m, pre))
        if "C09" in props and full:
            for s, m in mon.c09(out, G, tmin, I0, "SIR"):
                A.add(V("C09", fn, cls, s, m, pre))
        if "C10" in props and full:
            r2 = run_once(sim, lambda orc: call(orc, False), pre, exp=pol)
            if r2.chosen() != pre:
                A.add(V("C10", fn, cls, "draws_differ", "the two return modes consume different random draws", pre))
            elif r2.exc is not None:
                A.add(V("C10", fn, cls, "exception", "array mode raised %r" % (r2.exc,), pre))
            else:
                for s, m in mon.c10(out, list(r2.out), G, tmin, ["S", "I", "R"], {("S", "I"), ("I", "R")}):
                    A.add(V("C10", fn, cls, s, m, pre))
    # fast path: joint law of the recipient set given the duration ---------------------------
    if fastpath and "C01" in props and not any("truncated_draw" in v["key"] or "binomial_protocol" in v["key"] for v in A.viol):
        # (with a broken draw protocol the trace no longer has the shape the law check parses)
        _check_recipient_law(A, runs, fn, cls, G, tau, nodes)
    if runs:
        r = runs[len(runs) // 2]
        A.sample = {"spec": spec, "choices": list(r.chosen()),
                    "draws": [[x[1], repr(x[2]), x[3], x[4]] for x in r.log if x[0] == "draw"][:12]}
    return A.result(props)


def _check_recipient_law(A, runs, fn, cls, G, tau, nodes):
    """Unweighted fast path: for every infection (identified by the choice prefix up to its
    duration draw) the probability, over the binomial and sample draws, that the recipient set
    is exactly X must be p^|X| (1-p)^(n-|X|) with p = 1-exp(-tau*duration): independent edges."""
    groups = {}
    for r in runs:
        if r.exc is not None:
            continue
        tr = r.trace
        i = 0
        while i < len(tr):
            kind, probs, c, info = tr[i]
            if kind == "exp" and info and info[0] == "dur":
                node = info[1]
                key = (r.chosen()[:i + 1], node)
                # following entries: optional binomial, optional sample, then trunc picks
                j = i + 1
                p = 1.0; nb = None; k = 0; recips = ()
                if j < len(tr) and tr[j][0] == "binomial":
                    nb, pp = tr[j][3]
                    p *= tr[j][1][tr[j][2]]
                    j += 1
                    if j < len(tr) and tr[j][0] == "sample":
                        p *= tr[j][1][tr[j][2]]
                        j += 1
                    rec = []
                    while j < len(tr) and tr[j][0] == "trunc" and tr[j][3][1] == node:
                        rec.append(tr[j][3][2]); j += 1
                    recips = frozenset(rec)
                    g = groups.setdefault(key, {"n": nb, "p": pp, "sets": {}})
                    g["sets"][(recips, tuple(rec))] = p
                i = j
            else:
                i += 1
    for key, g in groups.items():
        n, p = g["n"], g["p"]
        acc = {}
        for (X, order), pr in g["sets"].items():
            acc[X] = acc.get(X, 0.0) + pr
        for X, pr in acc.items():
            want = p ** len(X) * (1 - p) ** (n - len(X))
            if abs(pr - want) > 1e-9:
                A.add(V("C01", fn, cls, "recipient_law", "P(recipients of %r = %r) = %.12g, independent edges give %.12g (n=%d p=%.6g)" % (key[1], sorted(X), pr, want, n, p), key[0], pr, want))
                return
        tot = sum(acc.values())
        if abs(tot - 1) > 1e-6:   # (outcomes of negligible mass are dropped by the oracle)
            raise HarnessError("recipient-set probabilities sum to %r" % tot)


# ------------------------------------------------------------------------------------------
# spec enumeration
# ------------------------------------------------------------------------------------------

def specs_nonmarkov(tier):
    out = []
    thorough = tier != "quick"
    menu = [0, 1, 2, "inf"] if not thorough else [0, 1, 2, "inf"]
    gs = [(n, es) for n, es in gr.small_graphs(3)]
    if thorough:
        gs += [gr.NAMED[k] for k in ("P4", "S4", "C4", "paw")]
    else:
        gs += [gr.NAMED[k] for k in ("P4", "S4")]
    for n, es in gs:
        nodes = range(n)
        for I0 in gr.subsets(nodes, 1, 2 if n <= 3 else 1):
            rest = [v for v in nodes if v not in I0]
            for R0 in gr.subsets(rest, 0, 1 if n <= 3 else 0):
                for (tmin, tmax) in ((0, "inf"), (1.5, 2.5), (0, 2), (-4, -2)):
                    if n == 4 and (tmin, tmax) != (0, "inf") and not thorough:
                        continue
                    for form in ("sep", "joint"):
                        if form == "joint" and (n == 4 or tmax != "inf"):
                            continue
                        for full in (True, False):
                            if not full and (len(I0) > 1 or R0) and n >= 3:
                                continue
                            m = menu if len(es) <= 3 else [0, 1, "inf"]
                            out.append(dict(fn="fast_nonMarkov_SIR", n=n, edges=es, I0=list(I0), R0=list(R0),
                                            tmin=tmin, tmax=tmax, menu=m, form=form, full=full))
        if n == 3 and len(es) == 2:
            # directed contact networks (transmission only along edge direction)
            for des in ([(0, 1), (1, 2)], [(1, 0), (1, 2)], [(0, 1), (2, 1)], [(0, 1), (1, 0), (1, 2), (2, 0)], [(0, 1), (1, 2), (2, 0)]):
                for I0 in ([0], [1], [2]):
                    for form in ("sep", "joint"):
                        for full in (True, False):
                            out.append(dict(fn="fast_nonMarkov_SIR", n=3, edges=des, directed=True, I0=list(I0), R0=[], tmin=0, tmax="inf",
                                            menu=[0, 1, "inf"] if len(des) > 2 else [0, 1, 2, "inf"], form=form, full=full))
        if n <= 3 and es:
            # the user's functions answer with numpy scalars / Python ints instead of floats
            for I0 in ([0], [1]):
                for rt in ("np", "int"):
                    for form in ("sep", "joint"):
                        for full in (True, False):
                            out.append(dict(fn="fast_nonMarkov_SIR", n=n, edges=es, I0=list(I0), R0=[], tmin=0, tmax=("inf" if form == "sep" else 2),
                                            menu=[0, 1, 2, "inf"] if len(es) <= 2 else [0, 1, "inf"], form=form, full=full, rettype=rt))
            for I0 in ([0], [1]):
                for form in ("sep_args", "joint_args"):
                    for full in (True, False):
                        out.append(dict(fn="fast_nonMarkov_SIR", n=n, edges=es, I0=list(I0), R0=[], tmin=0, tmax="inf",
                                        menu=[0, 1, "inf"], form=form, full=full))
        if n == 3 and len(es) == 2:
            for I0 in ([0], [1]):
                out.append(dict(fn="fast_nonMarkov_SIR", n=n, edges=list(es) + [(1, 1), (0, 0)], I0=list(I0), R0=[], tmin=0, tmax="inf",
                                menu=[0, 1, "inf"], form="sep", full=True))
        # queue order of simultaneous events: permuted node insertion and I0 order
        if 2 <= n <= 3 and es:
            for perm in itertools.permutations(range(n)):
                if list(perm) == list(range(n)):
                    continue
                for I0 in ([0, 1], [1, 0]) if n >= 2 else ([0],):
                    out.append(dict(fn="fast_nonMarkov_SIR", n=n, edges=es, I0=list(I0), R0=[], tmin=0, tmax="inf",
                                    menu=[0, 1, "inf"], form="sep", full=True, node_order=list(perm)))
    return out


def specs_fast_sir(tier):
    out = []
    thorough = tier != "quick"
    menu = [0.4, 1.0, 2.7] if thorough else [0.5, 1.6]
    gs = [(n, es) for n, es in gr.small_graphs(3) if es]
    gs += [gr.NAMED[k] for k in (("P4", "S4", "C4", "paw") if thorough else ("P4", "S4"))]
    for n, es in gs:
        nodes = range(n)
        for (tw, rw) in ((None, None), ("w", None), (None, "rw"), ("w", "rw")):
            for I0 in gr.subsets(nodes, 1, 2 if n <= 3 else 1):
                rest = [v for v in nodes if v not in I0]
                for R0 in gr.subsets(rest, 0, 1 if n <= 3 else 0):
                    for full in (True, False):
                        if not full and (R0 or len(I0) > 1):
                            continue
                        m = menu if len(es) <= 3 else menu[:2]
                        out.append(dict(fn="fast_SIR", n=n, edges=es, I0=list(I0), R0=list(R0), tau=0.3, gamma=0.7,
                                        tw=tw, rw=rw, menu=m, full=full))
        # zero-rate path (tau*gamma == 0 forces the generic path) and finite horizons
        for (tau, gamma) in ((0.0, 0.7), (0.3, 0.0), (0.0, 0.0)):
            for I0 in gr.subsets(nodes, 1, 1):
                out.append(dict(fn="fast_SIR", n=n, edges=es, I0=list(I0), R0=[], tau=tau, gamma=gamma,
                                tw=None, rw=None, menu=menu[:2], full=True))
        for (tmin, tmax) in ((0, 1.2), (1.5, 3.0), (-5, -3.4)):
            for I0 in gr.subsets(nodes, 1, 1):
                for tw in (None, "w"):
                    out.append(dict(fn="fast_SIR", n=n, edges=es, I0=list(I0), R0=[], tau=0.3, gamma=0.7,
                                    tw=tw, rw=None, menu=menu[:2], full=True, tmin=tmin, tmax=tmax))
    # self-loops
    for (n, es) in ((3, [(0, 1), (1, 2), (1, 1), (0, 0)]), (3, [(0, 1), (1, 2), (0, 2), (2, 2)])):
        for (tw, rw) in ((None, None), ("w", "rw")):
            for I0 in gr.subsets(range(n), 1, 2):
                for full in (True, False):
                    out.append(dict(fn="fast_SIR", n=n, edges=es, I0=list(I0), R0=[], tau=0.3, gamma=0.7, tw=tw, rw=rw, menu=menu[:2], full=full))
    # rates and times passed as Python ints / numpy scalars
    for (n, es) in (gr.NAMED["K3"], gr.NAMED["P3"]):
        for (tw, rw) in ((None, None), ("w", "rw")):
            for at, tau, gamma, tmin, tmax in (("int", 1, 2, 0, 2), ("int", 2, 1, -1, 1), ("int", 0, 1, 0, 2), ("int", 1, 0, 0, 2),
                                               ("npint", 1, 2, 0, 2), ("npint", 1, 0, 1, 3), ("int", 1, 2, 0, "inf"),
                                               ("np", 0.3, 0.7, 0, 2.5), ("np", 1.1, 0.0, 1.5, 3.5), ("np", 0.0, 0.7, 0, 2), ("np", 0.3, 0.7, 0, "inf")):
                for I0 in ([0], [1]):
                    for full in (False, True):
                        out.append(dict(fn="fast_SIR", n=n, edges=es, I0=I0, R0=[], tau=tau, gamma=gamma, tw=tw, rw=rw, menu=menu[:2], full=full,
                                        tmin=tmin, tmax=tmax, argtype=at))
    return out
