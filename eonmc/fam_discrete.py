"""Driver family: discrete-time simulators (C12).

* discrete_SIR with user transmission / recovery rules as lazily enumerated Boolean tables
  (every distinct rule behaviour is explored) against breadth-first generations.
* basic_discrete_SIR, percolation_based_discrete_SIR, basic_discrete_SIS, percolate_network
  under the lazy-uniform oracle: the distribution over whole trajectories summed over all
  executions equals the exact Reed-Frost / discrete SIS chain.
Riders: C04 C05 C09 C10 C19.
"""
import itertools
import numpy as np
import networkx as nx
from . import import_eon
from .core import explore, run_once, outcome_dist, CapHit, HarnessError
from .common import V, Acc, hsh
from .ref import num, INF
from . import graphs as gr
from . import monitors as mon

TOL = 1e-9


# ------------------------------------------------------------------------------------------
# reference: step semantics with tables
# ------------------------------------------------------------------------------------------

def step_ref(G, I0, R0, tmin, tmax, trans, rec, keep_rule):
    """trans[(u,v,step)] / rec[(u,step)] are the asked table entries (step-keyed; for the
    BFS mode the caller maps every step to the same key).  Returns (states per time, missing)."""
    nodes = list(G.nodes())
    st = {v: "S" for v in nodes}
    for v in I0: st[v] = "I"
    for v in R0: st[v] = "R"
    t = tmin
    seq = [(t, dict(st))]
    contacts = []
    step = 0
    missing = None
    while any(s == "I" for s in st.values()) and t < tmax:
        inf = [u for u in nodes if st[u] == "I"]
        new = set()
        for v in nodes:
            if st[v] != "S":
                continue
            asked_true = [u for u in inf if G.has_edge(u, v) and trans(u, v, step) is True]
            unasked = [u for u in inf if G.has_edge(u, v) and trans(u, v, step) is None]
            if asked_true:
                new.add(v); contacts.append((t, tuple(asked_true), v))
            elif unasked and missing is None:
                missing = ("contact_not_tested", "step %d: %r is susceptible with infectious neighbour(s) %r but the rule was never consulted" % (step, v, unasked))
        nst = dict(st)
        for u in inf:
            if keep_rule:
                a = rec(u, step)
                if a is None and missing is None:
                    missing = ("recovery_not_tested", "step %d: recovery rule never consulted for %r" % (step, u))
                nst[u] = "R" if a else "I"
            else:
                nst[u] = "R"
        for v in new:
            nst[v] = "I"
        st = nst
        t += 1; step += 1
        seq.append((t, dict(st)))
    return seq, contacts, missing


def counts(seq, sir=True):
    cols = ["S", "I", "R"] if sir else ["S", "I"]
    return [(t,) + tuple(sum(1 for s in st.values() if s == c) for c in cols) for t, st in seq]


def classify(spec):
    f = [spec["fn"]]
    if spec.get("R0"):
        f.append("R0")
    return "+".join(f[1:]) or "plain"


# ------------------------------------------------------------------------------------------
# discrete_SIR with lazily enumerated rules
# ------------------------------------------------------------------------------------------

XARGS = ("xa", 5)


def run_rules(spec, props=("C12",)):
    EoN, sim = import_eon()
    A = Acc()
    fn = "discrete_SIR"
    n = spec["n"]; nodes = list(range(n))
    G = gr.mk(n, [tuple(e) for e in spec["edges"]])
    I0 = list(spec["I0"]); R0 = list(spec.get("R0", []))
    tmin = num(spec.get("tmin", 0)); tmax = num(spec.get("tmax", "inf"))
    full = bool(spec.get("full", False))
    keep = bool(spec.get("test_recovery", False))
    refusals = spec.get("refusals", 2)
    cls = ("rules+keep" if keep else "rules") + ("+R0" if R0 else "")

    def call(orc, full_):
        T = orc.ctx.setdefault("T", {}); Rc = orc.ctx.setdefault("Rc", {})
        cur = orc.ctx.setdefault("step", [0, set()])   # current step inferred from recovery calls

        def step_of():
            return cur[0]

        rt = spec.get("rettype")
        conv = {None: (lambda b: b), "npbool": np.bool_, "int": int}[rt]     # a truth value need not be the singleton True/False

        def tt(u, v):
            k = (u, v, step_of()) if keep else (u, v)
            if k not in T:
                T[k] = orc.pick("trans", [True, False], info=("trans",) + k)
            return conv(T[k])

        def tr(u):
            k = (u, step_of())
            if k not in Rc:
                used = sum(1 for x in Rc.values() if x is False)
                Rc[k] = orc.pick("rec", [True, False], info=("rec",) + k) if used < refusals else True
            cur[1].add(u)
            return conv(Rc[k])
        kw = dict(initial_infecteds=list(I0), tmin=tmin, tmax=tmax, return_full_data=full_)
        if R0:
            kw["initial_recovereds"] = list(R0)
        bad = orc.ctx.setdefault("badargs", [])

        def tt_a(u, v, xa, xb):
            if (xa, xb) != XARGS:
                bad.append(("test_transmission", (xa, xb), XARGS))
            return tt(u, v)
        if keep:
            # the step counter advances once the recovery rule has been asked for every node that is
            # infectious in the current step (recomputed by the harness from the tables asked so far)
            def tr3(u):
                a = tr(u)
                # recompute which nodes are infectious in the current step from the reference run so far
                st = _state_at(G, I0, R0, T, Rc, cur[0])
                if st is not None and cur[1] >= {x for x, s in st.items() if s == "I"}:
                    cur[0] += 1; cur[1] = set()
                return a
            if spec.get("xargs"):
                return EoN.discrete_SIR(G, test_transmission=tt_a, args=XARGS, test_recovery=tr3, **kw)
            return EoN.discrete_SIR(G, test_transmission=tt, test_recovery=tr3, **kw)
        if spec.get("xargs"):
            return EoN.discrete_SIR(G, test_transmission=tt_a, args=XARGS, **kw)
        return EoN.discrete_SIR(G, test_transmission=tt, **kw)

    before = mon.snap(G)
    try:
        runs = list(explore(sim, lambda orc: call(orc, full), cap=spec.get("cap", 300000), stats=A.count))
    except CapHit as e:
        A.caps.append(str(e)); return A.result(props)
    A.execs = len(runs); A.selfchecks = A.count.pop("selfchecks", 0)
    if "C19" in props:
        for s, m in mon.c19_compare([before], [mon.snap(G)], ["G"]):
            A.add(V("C19", fn, cls, s, m))
    for r in runs:
        pre = r.chosen()
        if r.exc is not None:
            for p in ("C12", "C04"):
                if p in props:
                    A.add(V(p, fn, cls, "exception", "discrete_SIR raised %r" % (r.exc,), pre))
            continue
        T = r.ctx.get("T", {}); Rc = r.ctx.get("Rc", {})
        if r.ctx.get("badargs") and "C12" in props:
            w, got, want = r.ctx["badargs"][0]
            A.add(V("C12", fn, cls, "callback_args", "%s received the extra arguments %r, the caller supplied %r" % (w, got, want), pre))
        if keep:
            seq, contacts, missing = step_ref(G, I0, R0, tmin, tmax, lambda u, v, s: T.get((u, v, s)), lambda u, s: Rc.get((u, s)), True)
        else:
            seq, contacts, missing = step_ref(G, I0, R0, tmin, tmax, lambda u, v, s: T.get((u, v)), None, False)
        out = r.out
        arrs = None if full else list(out)
        A.outcomes.add(hsh(mon.hist_of(out, nodes) if full else [a.tolist() for a in arrs]))
        A.count["rows_checked"] = A.count.get("rows_checked", 0) + 1
        A.states.add(hsh((sorted(T.items()), sorted(Rc.items()))))
        if len(seq) > 1:
            A.nontrivial.add(pre)
        if "C12" in props:
            if missing:
                A.add(V("C12", fn, cls, missing[0], missing[1], pre))
            else:
                A.trans.add(hsh(counts(seq)))
                if not keep:
                    # generation = tmin + BFS distance in the digraph of successful contacts (R0 removed)
                    D = nx.DiGraph(); D.add_nodes_from(v for v in nodes if v not in R0)
                    for (u, v), ok in T.items():
                        if ok and u not in R0 and v not in R0:
                            D.add_edge(u, v)
                    dist = {}
                    for s0 in I0:
                        for v, d in nx.single_source_shortest_path_length(D, s0).items():
                            dist[v] = min(dist.get(v, INF), d)
                    for t, st in seq:
                        for v in nodes:
                            infected_by_now = st[v] in ("I", "R") and v not in R0
                            if infected_by_now != (v in dist and tmin + dist[v] <= t):
                                raise HarnessError("step reference and BFS reference disagree")
                want = counts(seq)
                if full:
                    ok = True
                    lastt = seq[-1][0]
                    for t, st in seq:
                        if t > tmax:
                            continue
                        try:
                            got = out.get_statuses(time=t)
                        except Exception as e:
                            A.add(V("C12", fn, cls, "exception", "get_statuses raised %r" % (e,), pre)); ok = False; break
                        if {v: got[v] for v in nodes} != st:
                            A.add(V("C12", fn, cls, "generations", "statuses at t=%r are %r, breadth-first generations give %r (successful contacts %r)" % (t, got, st, sorted(k for k, v in T.items() if v)), pre, got, st)); ok = False; break
                else:
                    got = list(zip(*[np.asarray(a).tolist() for a in arrs]))
                    if got != want:
                        A.add(V("C12", fn, cls, "generations", "arrays %r, breadth-first generations give %r (successful contacts %r, kept infectious %r)" % (got, want, sorted(k for k, v in T.items() if v), sorted(k for k, v in Rc.items() if not v)), pre, got, want))
        # riders
        gapint = (tmax == INF) or float(tmax - tmin).is_integer()
        if "C04" in props:
            a = arrs if arrs is not None else [out.t(), out.S(), out.I(), out.R()]
            if arrs is not None or gapint:
                for s, m in mon.c04(a, n, tmin, tmax, "SIR", discrete=True, must_die_out=(tmax == INF), every_step=(arrs is not None)):
                    A.add(V("C04", fn, cls, s, m, pre))
        if "C05" in props:
            if not full:
                for s, m in mon.c05_arrays(arrs, n, tmin, I0, R0, True, G=G):
                    A.add(V("C05", fn, cls, s, m, pre))
            else:
                for s, m in mon.c05_full(out, nodes, tmin, I0, R0, True):
                    A.add(V("C05", fn, cls, s, m, pre))
        if "C09" in props and full and gapint:
            for s, m in mon.c09(out, G, tmin, I0, "SIR", discrete=True):
                A.add(V("C09", fn, cls, s, m, pre))
            # the recorded infector made a successful contact
            for (t, u, v) in out.transmissions():
                if u is not None:
                    k = (u, v, int(round(t - tmin))) if keep else (u, v)
                    if T.get(k) is not True:
                        A.add(V("C09", fn, cls, "infector", "recorded infector %r of %r at %r made no successful contact" % (u, v, t), pre)); break
        if "C10" in props and full and gapint:
            # deterministic rules: replay the same tables in array mode (the extra attribution draw is a choice point of full mode only)
            tabT = dict(T); tabR = dict(Rc)
            def call2(orc):
                orc.ctx["T"] = dict(tabT); orc.ctx["Rc"] = dict(tabR)
                return call(orc, False)
            r2 = run_once(sim, call2, ())
            if r2.exc is not None:
                A.add(V("C10", fn, cls, "exception", "array mode raised %r" % (r2.exc,), pre))
            elif len(r2.trace) > 0 and any(k not in tabT for k in r2.ctx["T"]):
                pass  # array mode asked something full mode did not: compared through the arrays below
            if r2.exc is None:
                for s, m in mon.c10(out, list(r2.out), G, tmin, ["S", "I", "R"], {("S", "I"), ("I", "R")}, stepwise=True):
                    A.add(V("C10", fn, cls, s, m, pre))
    if runs:
        r = runs[len(runs) // 2]
        A.sample = {"spec": spec, "choices": list(r.chosen()),
                    "contact_table": {repr(k): v for k, v in r.ctx.get("T", {}).items()}}
    return A.result(props)


def _state_at(G, I0, R0, T, Rc, step):
    """statuses at the beginning of `step` according to the tables asked so far (None if undecidable)."""
    nodes = list(G.nodes())
    st = {v: "S" for v in nodes}
    for v in I0: st[v] = "I"
    for v in R0: st[v] = "R"
    for s in range(step):
        inf = [u for u in nodes if st[u] == "I"]
        nst = dict(st)
        for v in nodes:
            if st[v] == "S" and any(G.has_edge(u, v) and T.get((u, v, s)) for u in inf):
                nst[v] = "I"
        for u in inf:
            a = Rc.get((u, s))
            if a is None:
                return None
            nst[u] = "R" if a else "I"
        st = nst
    return st


# ------------------------------------------------------------------------------------------
# Reed-Frost / discrete SIS chains (exact trajectory distributions)
# ------------------------------------------------------------------------------------------

def chain_trajectories(G, nodes, st0, p, tmin, tmax, sis, maxsteps):
    """{trajectory (tuple of status tuples): probability}"""
    res = {}

    def rec(traj, st, t, prob, steps):
        inf = [u for u in nodes if st[u] == "I"]
        if not inf or not (t < tmax) or steps >= maxsteps:
            res[traj] = res.get(traj, 0.0) + prob
            return
        risk = []
        for v in nodes:
            if st[v] == "S":
                k = sum(1 for u in inf if G.has_edge(u, v))
                if k:
                    risk.append((v, 1 - (1 - p) ** k))
        for pattern in itertools.product((0, 1), repeat=len(risk)):
            pr = prob
            nst = list(st)
            for u in inf:
                nst[u] = "S" if sis else "R"
            for (v, q), b in zip(risk, pattern):
                pr *= q if b else (1 - q)
                if b:
                    nst[v] = "I"
            if pr <= 0:
                continue
            nst = tuple(nst)
            rec(traj + (nst,), nst, t + 1, pr, steps + 1)
    rec((tuple(st0),), tuple(st0), tmin, 1.0, 0)
    return res


def run_prob(spec, props=("C12",)):
    EoN, sim = import_eon()
    A = Acc()
    fn = spec["fn"]
    n = spec["n"]; nodes = list(range(n))
    G = gr.mk(n, [tuple(e) for e in spec["edges"]])
    if spec.get("directed"):
        G = nx.DiGraph(); G.add_nodes_from(range(n)); G.add_edges_from([tuple(e) for e in spec["edges"]])     # contacts only along edge direction
    p = spec["p"]
    I0 = list(spec["I0"]); R0 = list(spec.get("R0", []))
    tmin = num(spec.get("tmin", 0)); tmax = num(spec.get("tmax", "inf"))
    full = bool(spec.get("full", False))
    sis = fn.endswith("SIS")
    cls = "R0" if R0 else "plain"
    style = spec.get("style", "kw")

    def call(orc, full_):
        f = getattr(EoN, fn)
        kw = dict(tmin=tmin, tmax=tmax, return_full_data=full_)
        if R0 and not sis:
            kw["initial_recovereds"] = list(R0)
        if style == "positional":
            return f(G, p, list(I0), **kw)
        return f(G, p, initial_infecteds=list(I0), **kw)

    before = mon.snap(G)
    try:
        runs = list(explore(sim, lambda orc: call(orc, full), cap=spec.get("cap", 300000), stats=A.count))
    except CapHit as e:
        A.caps.append(str(e)); return A.result(props)
    A.execs = len(runs); A.selfchecks = A.count.pop("selfchecks", 0)
    if "C19" in props:
        for s, m in mon.c19_compare([before], [mon.snap(G)], ["G"]):
            A.add(V("C19", fn, cls, s, m))
    st0 = tuple("I" if v in I0 else ("R" if v in R0 else "S") for v in nodes)
    steps_max = 10 ** 9
    statuses = ["S", "I"] if sis else ["S", "I", "R"]

    def label(r):
        if r.exc is not None:
            return ("EXC", type(r.exc).__name__, str(r.exc)[:80])
        if full != hasattr(r.out, "get_statuses"):
            return ("EXC", "return_type", "return_full_data=%r but the call returned a %s" % (full, type(r.out).__name__))
        if full:
            ts = list(np.asarray(r.out.t()).tolist())
            # the trajectory of status vectors at t = tmin, tmin+1, ...
            k = 0
            traj = []
            t = tmin
            tlast = max(ts) if ts else tmin
            try:
                while t <= tlast:
                    gs = r.out.get_statuses(time=t)
                    traj.append(tuple(gs[v] for v in nodes)); t += 1
            except Exception as e:
                return ("EXC", "full_data_" + type(e).__name__, "the returned Simulation_Investigation cannot report statuses of all nodes: %r" % (e,))
            return ("TRAJ", tuple(traj))
        return ("ARR", tuple(zip(*[np.asarray(a).tolist() for a in r.out])))

    if "C12" in props:
        dist = outcome_dist(runs, label)
        ref = chain_trajectories(G, nodes, st0, p, tmin, tmax, sis, steps_max)
        for k in dist:
            if k[0] == "EXC":
                A.add(V("C12", fn, cls, "exception", "%s raised %s: %s" % (fn, k[1], k[2]), ()))
        if not any(k[0] == "EXC" for k in dist):
            if full:
                # full data cannot show the final all-recovered step beyond the last change; compare on
                # trajectories truncated to the last time at which something changed
                def trunc(tr):
                    tr = list(tr)
                    while len(tr) > 1 and tr[-1] == tr[-2]:
                        tr.pop()
                    return tuple(tr)
                want = {}
                for tr, pr in ref.items():
                    want[trunc(tr)] = want.get(trunc(tr), 0.0) + pr
                got = {}
                for k, pr in dist.items():
                    got[trunc(k[1])] = got.get(trunc(k[1]), 0.0) + pr
            else:
                want = {}
                cols = statuses
                for tr, pr in ref.items():
                    key = tuple((round(tmin + i, 9),) + tuple(sum(1 for s in st if s == c) for c in cols) for i, st in enumerate(tr))
                    want[key] = want.get(key, 0.0) + pr
                # times compared to 1e-9 (tmin + k by repeated addition is an ulp off tmin + k for non-dyadic tmin)
                got = {}
                for k, pr in dist.items():
                    kk = tuple((round(row[0], 9),) + tuple(row[1:]) for row in k[1])
                    got[kk] = got.get(kk, 0.0) + pr
            for k in set(got) | set(want):
                if abs(got.get(k, 0.0) - want.get(k, 0.0)) > TOL:
                    A.add(V("C12", fn, cls, "trajectory_law", "P(trajectory %r) = %.12g, exact chain gives %.12g (p=%r)" % (k, got.get(k, 0.0), want.get(k, 0.0), p), (), got.get(k, 0.0), want.get(k, 0.0)))
                    break
            A.states.update(hsh(k) for k in want)
            A.trans.update(hsh((k, round(v, 12))) for k, v in want.items())
    for r in runs:
        pre = r.chosen()
        if r.exc is not None:
            if "C04" in props:
                A.add(V("C04", fn, cls, "exception", "%s raised %r" % (fn, r.exc), pre))
            continue
        out = r.out
        if full != hasattr(out, "get_statuses"):
            continue    # reported through label()
        if label(r)[0] == "EXC":
            continue
        arrs = None if full else list(out)
        A.outcomes.add(hsh(label(r)))
        A.count["rows_checked"] = A.count.get("rows_checked", 0) + 1
        if (len(out.t()) if full else len(arrs[0])) > 1:
            A.nontrivial.add(pre)
        gapint = (tmax == INF) or float(tmax - tmin).is_integer()
        if "C04" in props and (arrs is not None or gapint):
            a = arrs if arrs is not None else ([out.t(), out.S(), out.I()] + ([] if sis else [out.R()]))
            for s, m in mon.c04(a, n, tmin, tmax, "SIS" if sis else "SIR", discrete=True, must_die_out=(tmax == INF and not sis), every_step=(arrs is not None)):
                A.add(V("C04", fn, cls, s, m, pre))
        if "C05" in props:
            if not full:
                for s, m in mon.c05_arrays(arrs, n, tmin, I0, R0, not sis, G=G):
                    A.add(V("C05", fn, cls, s, m, pre))
            else:
                for s, m in mon.c05_full(out, nodes, tmin, I0, R0, not sis):
                    A.add(V("C05", fn, cls, s, m, pre))
        if "C09" in props and full and gapint:
            for s, m in mon.c09(out, G, tmin, I0, "SIS" if sis else "SIR", discrete=True):
                A.add(V("C09", fn, cls, s, m, pre))
    if runs:
        r = runs[len(runs) // 2]
        A.sample = {"spec": spec, "choices": list(r.chosen()), "kinds": [t[0] for t in r.trace][:20]}
    return A.result(props)


def run_percolate(spec, props=("C12",)):
    EoN, sim = import_eon()
    A = Acc()
    n = spec["n"]
    G = gr.mk(n, [tuple(e) for e in spec["edges"]])
    if spec.get("labels") == "shifted":
        G = nx.relabel_nodes(G, {i: 10 + 3 * i for i in range(n)})       # labels that are not 0..N-1
    elif spec.get("labels") == "str":
        G = nx.relabel_nodes(G, {i: "n%d" % i for i in range(n)})
    p = spec["p"]
    fn = "percolate_network"
    runs = list(explore(sim, lambda orc: EoN.percolate_network(G, p), cap=100000, stats=A.count))
    A.execs = len(runs); A.selfchecks = A.count.pop("selfchecks", 0)

    def label(r):
        if r.exc is not None:
            return ("EXC", repr(r.exc))
        H = r.out
        return (tuple(sorted(H.nodes())), tuple(sorted(tuple(sorted(e)) for e in H.edges())), H.is_directed())
    dist = outcome_dist(runs, label)
    m = G.number_of_edges()
    edges = sorted(tuple(sorted(e)) for e in G.edges())
    for k, pr in dist.items():
        if k[0] == "EXC":
            A.add(V("C12", fn, "plain", "exception", "percolate_network raised %s" % k[1])); continue
        nodes_, F, directed = k
        if list(nodes_) != sorted(G.nodes()) or directed or not set(F) <= set(edges):
            A.add(V("C12", fn, "plain", "not_subgraph", "result %r is not a spanning subgraph of G" % (k,)))
    if not A.viol:
        for F in gr.subsets(edges):
            want = p ** len(F) * (1 - p) ** (m - len(F))
            got = dist.get((tuple(sorted(G.nodes())), tuple(F), False), 0.0)
            if abs(got - want) > TOL:
                A.add(V("C12", fn, "plain", "edge_law", "P(kept edges = %r) = %.12g, independent edges give %.12g" % (F, got, want), (), got, want))
                break
            A.states.add(F)
            A.trans.add((F, round(want, 12)))
    A.outcomes.update(hsh(k) for k in dist)
    A.nontrivial.update(r.chosen() for r in runs if r.out is not None and r.out.number_of_edges() > 0)
    A.sample = {"spec": spec, "distribution": {repr(k[1]): v for k, v in list(dist.items())[:4]}}
    return A.result(props)


def run_spec(spec, props=("C12",)):
    k = spec["kind"]
    if k == "rules":
        return run_rules(spec, props)
    if k == "prob":
        return run_prob(spec, props)
    return run_percolate(spec, props)


def specs(tier):
    out = []
    thorough = tier != "quick"
    gs = [(n, es) for n, es in gr.small_graphs(3)]
    gs += [gr.NAMED[k] for k in (("P4", "S4", "C4", "paw", "K4") if thorough else ("P4", "C4"))]
    gs += [(3, [(0, 1), (1, 2), (1, 1)]), (3, [(0, 1), (1, 2), (0, 2), (0, 0), (2, 2)]), (2, [(0, 1), (1, 1)])]      # self-loops
    for n, es in gs:
        nodes = range(n)
        for I0 in gr.subsets(nodes, 1, 2 if n <= 3 else 1):
            rest = [v for v in nodes if v not in I0]
            for R0 in gr.subsets(rest, 0, 1):
                for (tmin, tmax) in ((0, "inf"), (1.5, 3.5), (0, 1), (0, 2.5), (-3, -1), (-2.5, "inf")):
                    if n == 4 and (tmin, tmax) != (0, "inf") and not thorough:
                        continue
                    for full in (False, True):
                        if len(es) > 4 and full:
                            continue
                        out.append(dict(kind="rules", fn="discrete_SIR", n=n, edges=es, I0=list(I0), R0=list(R0),
                                        tmin=tmin, tmax=tmax, full=full))
                if es and n <= 3:
                    for full in (False, True):
                        out.append(dict(kind="rules", fn="discrete_SIR", n=n, edges=es, I0=list(I0), R0=list(R0), tmin=0,
                                        tmax=4, full=full, test_recovery=True, refusals=2))
                        if not R0:
                            for rt in ("npbool", "int"):
                                out.append(dict(kind="rules", fn="discrete_SIR", n=n, edges=es, I0=list(I0), R0=[], tmin=0,
                                                tmax=4, full=full, test_recovery=True, refusals=2, rettype=rt))
                                out.append(dict(kind="rules", fn="discrete_SIR", n=n, edges=es, I0=list(I0), R0=[], tmin=0,
                                                tmax="inf", full=full, rettype=rt))
                            out.append(dict(kind="rules", fn="discrete_SIR", n=n, edges=es, I0=list(I0), R0=[], tmin=0,
                                            tmax=4, full=full, test_recovery=True, refusals=2, xargs=True))
                            out.append(dict(kind="rules", fn="discrete_SIR", n=n, edges=es, I0=list(I0), R0=[], tmin=0,
                                            tmax="inf", full=full, xargs=True))
        # probabilistic wrappers on directed contact networks
        if n == 3 and len(es) == 2 and tuple(map(tuple, es)) == ((0, 1), (1, 2)):
            for des in ([(0, 1), (1, 2)], [(1, 0), (1, 2)], [(0, 1), (1, 0), (1, 2)], [(0, 1), (1, 2), (2, 0)]):
                for fn in ("basic_discrete_SIR", "basic_discrete_SIS"):
                    for I0 in ([0], [1], [2]):
                        for p in (0.3, 1.0):
                            out.append(dict(kind="prob", fn=fn, n=3, edges=des, directed=True, p=p, I0=list(I0), R0=[], tmin=0,
                                            tmax=("inf" if not fn.endswith("SIS") else 3), full=False))
        # probabilistic wrappers
        for fn in ("basic_discrete_SIR", "percolation_based_discrete_SIR", "basic_discrete_SIS"):
            sis = fn.endswith("SIS")
            if len(es) > 4 and not thorough:
                continue
            for p in (0.3, 0.0, 1.0):
                for I0 in gr.subsets(nodes, 1, n if sis else (2 if n <= 3 else 1)):
                    rest = [v for v in nodes if v not in I0]
                    for R0 in (gr.subsets(rest, 0, 1) if not sis else [()]):
                        if R0 and p != 0.3:
                            continue
                        for full in (False, True):
                            if full and (p != 0.3 or n == 4):
                                continue
                            tmax = (3 if n <= 3 else 2) if sis else "inf"
                            out.append(dict(kind="prob", fn=fn, n=n, edges=es, p=p, I0=list(I0), R0=list(R0),
                                            tmin=0, tmax=tmax, full=full))
                if p == 0.3 and es and n <= 3:
                    # negative start times (all start times are dyadic: the references compare times exactly)
                    for (tmn, steps) in ((-3, 3), (-1, 2), (-2.5, 3)):
                        for full in (True, False):
                            out.append(dict(kind="prob", fn=fn, n=n, edges=es, p=p, I0=[0], R0=[], tmin=tmn, tmax=(tmn + steps), full=full))
                if p == 1.0 and es and n <= 3:
                    # non-dyadic start times: the library's own outputs (arrays, histories, transmission records) must agree exactly
                    for tmn in (1.0 / 3, 0.07, -2.0 / 3):
                        for full in (True, False):
                            out.append(dict(kind="prob", fn=fn, n=n, edges=es, p=p, I0=[0], R0=[], tmin=tmn, tmax=tmn + 4, full=full))
                if p == 0.3 and es:
                    out.append(dict(kind="prob", fn=fn, n=n, edges=es, p=p, I0=[0], R0=[], tmin=1.5, tmax=3.5, full=False))
                    out.append(dict(kind="prob", fn=fn, n=n, edges=es, p=p, I0=[0], R0=[], tmin=0, tmax=1 if not sis else 2, full=False, style="positional"))
        for p in (0.0, 0.3, 1.0):
            if es:
                out.append(dict(kind="percolate", fn="percolate_network", n=n, edges=es, p=p))
                if n <= 3:
                    for lab in ("shifted", "str"):
                        out.append(dict(kind="percolate", fn="percolate_network", n=n, edges=es, p=p, labels=lab))
    return out
