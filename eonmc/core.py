"""Seams + stateless choice-point explorer (DESIGN §1.1, §1.2).

The explorer runs the *real* EoN function once per choice sequence.  Every source of
nondeterminism of EoN.simulation is a module global (`random`, `np`, `heapq`) or a
call-back argument; `Oracle` stands in for all of them and turns each draw into an
enumerated choice point.
"""
import sys, math, itertools, heapq as _real_heapq, random as _real_random
from contextlib import contextmanager
import numpy as _real_np

INF = float("inf")
EPS_SIDE = 1e-12  # a side of a uniform split with less mass than this is a rounding artefact


class HarnessError(Exception):
    """The harness cannot interpret what the code did (limitation or nondeterminism).
    Never reported as a VIOLATION; the runner exits 2."""


class CapHit(HarnessError):
    pass


class Cut(BaseException):
    """Raised inside the code under test to cut a path at a closed rejection loop."""


class Diverged(BaseException):
    """Raised inside the code under test when one execution uses more oracle interactions than any
    terminating run within the stated bounds can (a changed library that loops forever must
    become a reported outcome, not a hung check)."""


MAX_STEPS = 1500


class NonTermination(Exception):
    """An execution of the code under test did not terminate: reported by the runner as a
    VIOLATION (symptom `nontermination`) of the property being checked."""

    def __init__(self, prefix):
        Exception.__init__(self, "an execution did not terminate within %d oracle interactions" % MAX_STEPS)
        self.prefix = tuple(prefix)


class U(object):
    """Lazy uniform(0,1) draw seen through an affine map a*u+b.  A comparison with a number
    is a choice point (the interval of u is split at the threshold)."""
    __slots__ = ("orc", "cell", "a", "b")

    def __init__(self, orc, cell, a=1.0, b=0.0):
        self.orc = orc; self.cell = cell; self.a = a; self.b = b

    def _num(self, c):
        if isinstance(c, U):
            raise HarnessError("arithmetic between two lazy uniforms")
        return float(c)

    def __mul__(self, c):
        c = self._num(c)
        return U(self.orc, self.cell, self.a * c, self.b * c)
    __rmul__ = __mul__

    def __truediv__(self, c):
        c = self._num(c)
        return U(self.orc, self.cell, self.a / c, self.b / c)

    def __add__(self, c):
        return U(self.orc, self.cell, self.a, self.b + self._num(c))
    __radd__ = __add__

    def __sub__(self, c):
        return U(self.orc, self.cell, self.a, self.b - self._num(c))

    def __rsub__(self, c):
        return U(self.orc, self.cell, -self.a, self._num(c) - self.b)

    def __neg__(self):
        return U(self.orc, self.cell, -self.a, -self.b)

    def _less(self, c):
        # a*u+b < c
        c = self._num(c)
        if self.a == 0:
            return self.b < c
        thr = (c - self.b) / self.a
        if self.a > 0:
            return self.orc._split(self.cell, thr)          # u < thr
        return not self.orc._split(self.cell, thr)          # u > thr  == not (u < thr) a.s.

    def __lt__(self, c): return self._less(c)
    def __le__(self, c): return self._less(c)
    def __gt__(self, c): return not self._less(c)
    def __ge__(self, c): return not self._less(c)

    def __float__(self):
        raise HarnessError("lazy uniform forced to a float")
    __int__ = __index__ = __bool__ = __float__

    def __array__(self, *a, **k):
        raise HarnessError("lazy uniform passed to numpy")

    def __repr__(self):
        return "U(%g*u%+g, u in [%g,%g))" % (self.a, self.b, self.cell[0], self.cell[1])


def default_exp(orc, rate, frame):
    """Gillespie-type clock: the value is only a time increment."""
    return 1.0, None


class Oracle(object):
    """Stands in for `random`, `np.random`, `heapq` and user call-back tables."""

    def __init__(self, prefix=(), exp=None, close_loops=True, ctx=None, zero_draws=False):
        self.prefix = prefix
        self.trace = []      # (kind, probs, chosen, info)
        self.marks = []      # (trace_index, tag, payload...)  event boundaries etc.
        self.log = []        # free-form seam log (heap pushes/pops, call-back calls)
        self.exp_policy = exp or default_exp
        self.close_loops = close_loops
        self.loop_target = None
        self._lc = None      # last `choice` call: [frame, lasti, seq, trace_index, n_usplits]
        self.ctx = ctx if ctx is not None else {}
        self.n_exp = 0
        self.steps = 0
        self.max_steps = None
        # zero_draws: every uniform draw first branches on the probability-zero but legal outcome
        # "exactly 0.0" (random.random() returns values in [0,1)); used where a property says *never*
        self.zero_draws = zero_draws

    def _tick(self):
        self.steps += 1
        if self.steps > (self.max_steps or MAX_STEPS):
            raise Diverged()

    # ---- core -----------------------------------------------------------------------
    def choose(self, kind, probs, info=None):
        self._tick()
        i = len(self.trace)
        if i < len(self.prefix):
            c = self.prefix[i]
            if not (0 <= c < len(probs)):
                raise HarnessError("replay divergence: choice %d out of range at %d (%s, %d outcomes)"
                                   % (c, i, kind, len(probs)))
        else:
            c = 0
        self.trace.append((kind, tuple(probs), c, info))
        return c

    def pick(self, kind, options, probs=None, info=None):
        """Enumerated answer of a call-back table / environment menu."""
        self._lc = None
        n = len(options)
        if n == 0:
            raise HarnessError("empty menu")
        if probs is None:
            probs = (1.0 / n,) * n
        return options[self.choose(kind, probs, info)]

    def mark(self, tag, *payload):
        self.marks.append((len(self.trace), tag) + payload)

    # ---- `random` module API --------------------------------------------------------
    def random(self):
        self._tick()
        if self.zero_draws:
            if self.choose("U0", (1.0, 0.0)) == 1:
                if self._lc is not None:
                    self._lc[4] += 1
                return 0.0
        return U(self, [0.0, 1.0])

    def _split(self, cell, thr):
        lo, hi = cell
        if thr != thr:
            raise HarnessError("NaN threshold in comparison with a uniform draw")
        thr = min(max(thr, lo), hi)
        pT = (thr - lo) / (hi - lo) if hi > lo else 0.0
        if self._lc is not None:
            self._lc[4] += 1      # a uniform comparison happened since the last `choice`
        if pT <= EPS_SIDE:
            out = False
        elif 1.0 - pT <= EPS_SIDE:
            out = True
        else:
            out = (self.choose("U", (pT, 1.0 - pT)) == 0)
        if out:
            cell[1] = thr
        else:
            cell[0] = thr
        return out

    def choice(self, seq):
        n = len(seq)
        if n == 0:
            raise IndexError("Cannot choose from an empty sequence")
        f = sys._getframe(1)
        lc = self._lc
        if (self.close_loops and lc is not None and lc[0] is f and lc[1] == f.f_lasti
                and lc[4] >= 1 and lc[2] == list(seq)):
            # the same call site asks the same question again after a rejected uniform
            # comparison and nothing else happened in between: a rejection loop.  Cut the
            # path; its mass is a self-loop of the trace node lc[3].
            self.loop_target = lc[3]
            raise Cut()
        idx = len(self.trace)
        c = self.choose("choice", (1.0 / n,) * n, None)
        self._lc = [f, f.f_lasti, list(seq), idx, 0]
        return seq[c]

    def sample(self, population, k):
        self._lc = None
        if isinstance(population, (set, frozenset, dict)):
            raise TypeError("Population must be a sequence.  For dicts or sets, use sorted(d).")
        pop = list(population)
        n = len(pop)
        if not 0 <= k <= n:
            raise ValueError("Sample larger than population or is negative")
        outs = list(itertools.permutations(range(n), k))
        c = self.choose("sample", (1.0 / len(outs),) * len(outs), (n, k))
        res = [pop[i] for i in outs[c]]
        self.log.append(("sample", list(pop), list(res)))
        return res

    def expovariate(self, rate):
        self._tick()
        self._lc = None
        if rate == 0:
            raise ZeroDivisionError("float division by zero")  # what random.expovariate(0) does
        f = sys._getframe(1)
        val, payload = self.exp_policy(self, rate, f)
        self.marks.append((len(self.trace), "exp", rate, payload))
        self.n_exp += 1
        return val

    def seed(self, *a, **k):
        pass

    # further `random` functions the unchanged library does not use: enumerated all the same, so that a change
    # which starts using one is judged by its behaviour instead of stopping the harness
    def choices(self, population, weights=None, *, cum_weights=None, k=1):
        self._lc = None
        pop = list(population); n = len(pop)
        if n == 0:
            raise IndexError("Cannot choose from an empty population")
        if cum_weights is not None:
            weights = [cum_weights[0]] + [cum_weights[i] - cum_weights[i - 1] for i in range(1, n)]
        if weights is None:
            probs = (1.0 / n,) * n
        else:
            tot = float(sum(weights)); probs = tuple(float(w) / tot for w in weights)
        res = [pop[self.choose("choices", probs, (n, k))] for _ in range(k)]
        self.log.append(("choices", list(pop), list(res)))
        return res

    def randrange(self, start, stop=None, step=1):
        self._lc = None
        r = range(start) if stop is None else range(start, stop, step)
        if len(r) == 0:
            raise ValueError("empty range for randrange()")
        if len(r) > 64:
            raise HarnessError("random.randrange over %d values is beyond the enumeration bound" % len(r))
        return r[self.choose("randrange", (1.0 / len(r),) * len(r), (len(r),))]

    def randint(self, a, b):
        return self.randrange(a, b + 1)

    def shuffle(self, x):
        self._lc = None
        n = len(x)
        if n > 6:
            raise HarnessError("random.shuffle of %d items is beyond the enumeration bound" % n)
        perms = list(itertools.permutations(range(n)))
        c = self.choose("shuffle", (1.0 / len(perms),) * len(perms), (n,))
        x[:] = [x[i] for i in perms[c]]

    def uniform(self, a, b):
        return a + (b - a) * self.random()

    def __getattr__(self, name):
        raise HarnessError("unexpected use of random.%s by the code under test" % name)

    # ---- numpy.random ---------------------------------------------------------------
    def binomial(self, n, p):
        self._lc = None
        n = int(n); p = float(p)
        self.log.append(("binomial", n, p))
        if n == 0:
            return 0
        probs = [math.comb(n, k) * p ** k * (1 - p) ** (n - k) for k in range(n + 1)]
        # outcomes of negligible mass are not behaviours
        ks = [k for k in range(n + 1) if probs[k] > EPS_SIDE]
        c = self.choose("binomial", tuple(probs[k] for k in ks), (n, p))
        return ks[c]

    # ---- heapq ----------------------------------------------------------------------
    def heappush(self, q, item):
        self._tick()
        self._lc = None
        self.log.append(("push", item))
        _real_heapq.heappush(q, item)

    def heappop(self, q):
        self._lc = None
        item = _real_heapq.heappop(q)
        self.log.append(("pop", item))
        return item

    # ---- helpers --------------------------------------------------------------------
    def chosen(self):
        return tuple(t[2] for t in self.trace)

    def path_prob(self):
        p = 1.0
        for kind, probs, c, info in self.trace:
            p *= probs[c]
        return p


class _NpRandom(object):
    def __init__(self, orc): self._orc = orc
    def binomial(self, n, p): return self._orc.binomial(n, p)
    def __getattr__(self, name):
        raise HarnessError("unexpected use of numpy.random.%s by the code under test" % name)


class NpProxy(object):
    def __init__(self, orc):
        self.random = _NpRandom(orc)
    def __getattr__(self, name):
        return getattr(_real_np, name)


class HeapProxy(object):
    def __init__(self, orc): self._orc = orc
    def heappush(self, q, item): return self._orc.heappush(q, item)
    def heappop(self, q): return self._orc.heappop(q)
    def __getattr__(self, name):
        raise HarnessError("unexpected use of heapq.%s by the code under test" % name)


@contextmanager
def seams(sim, orc, heap=True):
    old = (sim.random, sim.np, sim.heapq)
    sim.random = orc
    sim.np = NpProxy(orc)
    if heap:
        sim.heapq = HeapProxy(orc)
    try:
        yield orc
    finally:
        sim.random, sim.np, sim.heapq = old


class Run(object):
    __slots__ = ("trace", "marks", "log", "out", "exc", "cut", "ctx", "prefix", "short")

    def chosen(self):
        return tuple(t[2] for t in self.trace)

    def prob(self):
        p = 1.0
        for kind, probs, c, info in self.trace:
            p *= probs[c]
        return p


def run_once(sim, fn, prefix, exp=None, close_loops=True, heap=True, zero_draws=False, max_steps=None, allow_short=False):
    """One execution of the real code under the oracle.  fn(orc) -> output.
    allow_short: an execution that ends before the scheduled prefix is used up is returned (r.short = number of
    choices consumed) instead of being a harness error - for drivers whose question is exactly that."""
    orc = Oracle(prefix, exp=exp, close_loops=close_loops, zero_draws=zero_draws)
    orc.max_steps = max_steps
    r = Run()
    r.out = None; r.exc = None; r.cut = None
    with seams(sim, orc, heap=heap):
        try:
            r.out = fn(orc)
        except Cut:
            r.cut = orc.loop_target
        except Diverged:
            raise NonTermination(orc.chosen()[:60])
        except HarnessError:
            raise
        except RecursionError:
            raise HarnessError("recursion limit")
        except Exception as e:      # an exception of the library is an observable outcome
            r.exc = e
    r.short = None
    if len(orc.trace) < len(prefix):
        if not allow_short:
            raise HarnessError("replay divergence: execution consumed %d of %d prefix choices"
                               % (len(orc.trace), len(prefix)))
        r.short = len(orc.trace)
    r.trace = orc.trace; r.marks = orc.marks; r.log = orc.log; r.ctx = orc.ctx
    r.prefix = tuple(prefix)
    return r


def sig(x):
    """Canonical, comparable form of outputs (determinism self-check, outcome counting)."""
    if x is None or isinstance(x, (bool, int, float, str)):
        return x
    if isinstance(x, _real_np.ndarray):
        return ("nd", x.shape, tuple(x.ravel().tolist()))
    if isinstance(x, _real_np.generic):
        return x.item()
    if isinstance(x, (list, tuple)):
        return tuple(sig(y) for y in x)
    if isinstance(x, (set, frozenset)):
        return ("set",) + tuple(sorted((sig(y) for y in x), key=repr))
    if isinstance(x, dict):
        return ("dict",) + tuple(sorted(((sig(k), sig(v)) for k, v in x.items()), key=repr))
    if isinstance(x, BaseException):
        return ("exc", type(x).__name__, str(x))
    if hasattr(x, "_node_history_"):
        return ("SI", sig({k: v for k, v in x._node_history_.items()}), sig(x._transmissions_))
    if hasattr(x, "edges") and hasattr(x, "nodes"):
        return ("G", x.is_directed(), sig({n: dict(d) for n, d in x.nodes(data=True)}),
                sig({(u, v): dict(d) for u, v, d in x.edges(data=True)}))
    if callable(x):
        return ("fn", getattr(x, "__name__", "?"))
    return ("obj", repr(x))


def run_sig(r):
    return (tuple((t[0], t[1], t[2]) for t in r.trace),
            tuple((m[0], m[1], sig(m[2:])) for m in r.marks),
            len(r.log), sig(r.out), sig(r.exc), r.cut)


def explore(sim, fn, exp=None, cap=200000, close_loops=True, heap=True, selfcheck=64,
            stats=None, zero_draws=False):
    """Stateless exhaustive DFS over all choice sequences of fn.  Yields every Run.
    Raises CapHit when more than `cap` executions would be needed."""
    stack = [()]
    n = 0
    while stack:
        prefix = stack.pop()
        r = run_once(sim, fn, prefix, exp=exp, close_loops=close_loops, heap=heap, zero_draws=zero_draws)
        n += 1
        if n > cap:
            raise CapHit("execution cap %d exceeded" % cap)
        if selfcheck and n % selfcheck == 1:
            r2 = run_once(sim, fn, prefix, exp=exp, close_loops=close_loops, heap=heap, zero_draws=zero_draws)
            if run_sig(r) != run_sig(r2):
                raise HarnessError("nondeterminism: the same choice sequence gave two different executions: %r"
                                   % (prefix,))
            if stats is not None:
                stats["selfchecks"] = stats.get("selfchecks", 0) + 1
        tr = r.trace
        ch = [t[2] for t in tr]
        for i in range(len(prefix), len(tr)):
            for alt in range(1, len(tr[i][1])):
                stack.append(tuple(ch[:i]) + (alt,))
        yield r


# ------------------------------------------------------------------------------------------
# probabilistic aggregation: per-boundary successor distributions with loop closure
# ------------------------------------------------------------------------------------------

class Segment(object):
    __slots__ = ("prefix", "ordinal", "state", "rate", "dist", "mass_cut")


def segments(runs, tag="exp", end_label=lambda r: ("END",)):
    """Group all runs by event boundary (marks with `tag`) and return, per boundary instance
    (identified by the choice prefix leading to it), the distribution over what the code does
    next: ('NEXT', state') | end_label(run).  Rejection loops (Run.cut) are closed at the
    trace node they return to (geometric series), per selection subtree."""
    inst = {}
    for r in runs:
        b = [m for m in r.marks if m[1] == tag]
        ch = r.chosen()
        for j, m in enumerate(b):
            i0 = m[0]
            last = (j + 1 == len(b))
            i1 = len(r.trace) if last else b[j + 1][0]
            if not last:
                leaf = ("NEXT", b[j + 1][3])
            elif r.cut is not None:
                if r.cut < i0:
                    raise HarnessError("loop closure target precedes its segment")
                leaf = ("LOOP", r.cut - i0)
            else:
                leaf = end_label(r)
            key = (ch[:i0], j)
            e = inst.get(key)
            if e is None:
                e = inst[key] = [m[3], m[2], {}]
            node = e[2]
            for d in range(i0, i1):
                kind, probs, c, info = r.trace[d]
                node.setdefault("p", probs)
                if node["p"] != probs:
                    raise HarnessError("same prefix, different choice point (nondeterminism)")
                node = node.setdefault("k", {}).setdefault(c, {})
            node["leaf"] = leaf
    out = []
    for (pre, j), (state, rate, root) in inst.items():
        def val(node, depth):
            if "leaf" in node:
                return {node["leaf"]: 1.0}
            acc = {}
            probs = node["p"]
            kids = node["k"]
            if len(kids) != len(probs):
                raise HarnessError("incomplete exploration below a choice point")
            for c, kid in kids.items():
                for lf, p in val(kid, depth + 1).items():
                    acc[lf] = acc.get(lf, 0.0) + probs[c] * p
            q = acc.pop(("LOOP", depth), 0.0)
            if q > 0:
                # geometric series: renormalise by the non-loop mass (summed directly - computing it as
                # 1-q cancels catastrophically when the acceptance probability is tiny)
                rest = sum(acc.values())
                if rest <= 0:
                    acc = {("LIVELOCK",): 1.0}
                else:
                    for lf in acc:
                        acc[lf] /= rest
            return acc
        s = Segment()
        s.prefix = pre; s.ordinal = j; s.state = state; s.rate = rate
        s.dist = val(root, 0)
        out.append(s)
    return out


def outcome_dist(runs, label):
    """Distribution over label(run) for a completely explored function, with rejection loops
    closed at the node they return to.  Returns {label: prob} (may contain ('LIVELOCK',))."""
    root = {}
    for r in runs:
        node = root
        for kind, probs, c, info in r.trace:
            node.setdefault("p", probs)
            if node["p"] != probs:
                raise HarnessError("same prefix, different choice point (nondeterminism)")
            node = node.setdefault("k", {}).setdefault(c, {})
        node["leaf"] = ("LOOP", r.cut) if r.cut is not None else ("OUT", label(r))

    def val(node, depth):
        if "leaf" in node:
            return {node["leaf"]: 1.0}
        acc = {}
        probs = node["p"]; kids = node["k"]
        if len(kids) != len(probs):
            raise HarnessError("incomplete exploration below a choice point")
        for c, kid in kids.items():
            for lf, p in val(kid, depth + 1).items():
                acc[lf] = acc.get(lf, 0.0) + probs[c] * p
        q = acc.pop(("LOOP", depth), 0.0)
        if q > 0:
            rest = sum(acc.values())      # non-loop mass, summed directly (no 1-q cancellation)
            if rest <= 0:
                return {("LIVELOCK",): 1.0}
            for lf in acc:
                acc[lf] /= rest
        return acc
    out = {}
    for lf, p in val(root, 0).items():
        k = lf[1] if lf[0] == "OUT" else lf
        out[k] = out.get(k, 0.0) + p
    return out


def explore_kinds(sim, fn, kinds, exp=None, cap=20000, heap=True):
    """Like explore(), but branches only at choice points whose kind is in `kinds`; every other
    choice takes its default (outcome 0).  Used where a property quantifies over one draw only
    (e.g. which nodes `rho` selects)."""
    stack = [()]
    n = 0
    while stack:
        prefix = stack.pop()
        r = run_once(sim, fn, prefix, exp=exp, heap=heap)
        n += 1
        if n > cap:
            raise CapHit("execution cap %d exceeded" % cap)
        ch = [t[2] for t in r.trace]
        for i in range(len(prefix), len(r.trace)):
            if r.trace[i][0] in kinds:
                for alt in range(1, len(r.trace[i][1])):
                    stack.append(tuple(ch[:i]) + (alt,))
        yield r
