"""eonmc - exhaustive (model-checking style) exploration of EoN under owned nondeterminism.

See /verif/DESIGN.md.  Everything here drives the *real* EoN code imported from /repo's
working tree; the only things replaced are module globals of EoN.simulation
(`random`, `np`, `heapq`) and caller-supplied call-backs.
"""
import os, sys, warnings

warnings.filterwarnings("ignore", category=SyntaxWarning)
warnings.filterwarnings("ignore", category=DeprecationWarning)
os.environ.setdefault("EON_VERIF", "1")

VERIF_ROOT = os.path.dirname(os.path.dirname(os.path.abspath(__file__)))
REPO_ROOT = os.environ.get("EON_REPO", "/repo")


def import_eon():
    """Import EoN from REPO_ROOT's working tree (never from a stale copy) and return
    (EoN, EoN.simulation)."""
    if REPO_ROOT not in sys.path:
        sys.path.insert(0, REPO_ROOT)
    import EoN
    import EoN.simulation as sim
    f = os.path.realpath(EoN.__file__)
    if not f.startswith(os.path.realpath(REPO_ROOT) + os.sep):
        raise RuntimeError("EoN imported from %s, expected under %s" % (f, REPO_ROOT))
    return EoN, sim
