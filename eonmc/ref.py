"""Reference models (DESIGN §1.5).  Deliberately boring; share no code with EoN."""
import heapq, itertools, math
from fractions import Fraction

INF = float("inf")


def num(x):
    if isinstance(x, str):
        return {"inf": INF, "-inf": -INF}[x]
    return x


# ----------------------------------------------------------------------------------------
# continuous-time Markov chains on status vectors
# ----------------------------------------------------------------------------------------

def sir_sis_rates(G, st, tau, gamma, tw, rw, sis):
    """st: tuple of 'S'/'I'/'R' indexed by node 0..n-1.  Returns {next_state: rate} (rates>0 only)."""
    out = {}
    for u in G.nodes():
        if st[u] == "I":
            r = gamma * (G.nodes[u][rw] if rw else 1.0)
            if r > 0:
                t = list(st); t[u] = "S" if sis else "R"; t = tuple(t)
                out[t] = out.get(t, 0.0) + r
            for v in G.neighbors(u):
                if st[v] == "S":
                    r = tau * (G[u][v][tw] if tw else 1.0)
                    if r > 0:
                        t = list(st); t[v] = "I"; t = tuple(t)
                        out[t] = out.get(t, 0.0) + r
    return out


def absorb(rates_fn, s0):
    """Exact absorption distribution of the jump chain of an acyclic CTMC (floats)."""
    memo = {}

    def rec(s):
        if s in memo:
            return memo[s]
        R = rates_fn(s)
        tot = sum(R.values())
        if tot <= 0:
            memo[s] = {s: 1.0}
            return memo[s]
        acc = {}
        for t, r in R.items():
            for f, p in rec(t).items():
                acc[f] = acc.get(f, 0.0) + p * r / tot
        memo[s] = acc
        return acc
    return rec(s0)


def spec_rates(G, H_edges, J_edges, st, nodew=None, edgew=None):
    """Generic simple-contagion chain.
    H_edges: list of (A, B, rate, key)   spontaneous  A -> B at rate*nodew[key][node]
    J_edges: list of ((A,B),(A,C), rate, key) induced: ordered neighbour pair (u,v) along edge
             direction with status (A,B) turns v into C at rate*edgew[key][(u,v)].
    st: dict node->status.  Returns list of (rate, kind, actor, node, new_status, transition)."""
    ev = []
    for (A, B, rate, key) in H_edges:
        for u in G.nodes():
            if st[u] == A:
                w = 1.0 if nodew is None or nodew.get(key) is None else nodew[key][u]
                ev.append((rate * w, "spont", u, u, B, (A, B)))
    for (AB, AC, rate, key) in J_edges:
        for u in G.nodes():
            if st[u] != AB[0]:
                continue
            for v in (G.successors(u) if G.is_directed() else G.neighbors(u)):
                if st[v] == AB[1]:
                    w = 1.0 if edgew is None or edgew.get(key) is None else edgew[key][(u, v)]
                    ev.append((rate * w, "ind", (u, v), v, AC[1], (AB, AC)))
    return ev


# ----------------------------------------------------------------------------------------
# first passage percolation (event-driven SIR with arbitrary delays)
# ----------------------------------------------------------------------------------------

def fpp(nodes, nbrs, delay, duration, I0, R0, tmin, tmax):
    """delay[(u,v)], duration[u] are dicts (missing entries => never needed, reported).
    Returns (inf_time, rec_time, pred) restricted to what is *reported* (< tmax)."""
    dist = {v: INF for v in nodes}
    for v in I0:
        dist[v] = tmin
    done = set()
    pq = [(tmin, i, v) for i, v in enumerate(I0)]
    heapq.heapify(pq)
    c = len(pq)
    while pq:
        d, _, u = heapq.heappop(pq)
        if u in done or d > dist[u]:
            continue
        done.add(u)
        if d >= tmax:
            continue
        for v in nbrs(u):
            if v in R0 or v in done:
                continue
            w = delay.get((u, v))
            if w is None:
                continue
            if w <= duration[u] and d + w < dist[v]:
                dist[v] = d + w; c += 1
                heapq.heappush(pq, (d + w, c, v))
    inf = {v: t for v, t in dist.items() if t < tmax}
    rec = {v: t + duration[v] for v, t in inf.items() if t + duration[v] < tmax}
    return inf, rec


# ----------------------------------------------------------------------------------------
# reachability
# ----------------------------------------------------------------------------------------

def reach(succ, sources):
    seen = set(sources); stack = list(sources)
    while stack:
        u = stack.pop()
        for v in succ(u):
            if v not in seen:
                seen.add(v); stack.append(v)
    return seen


def sccs(nodes, succ):
    """Brute force: u~v iff each reaches the other."""
    R = {u: reach(succ, [u]) for u in nodes}
    comps = []; seen = set()
    for u in nodes:
        if u in seen:
            continue
        c = frozenset(v for v in R[u] if u in R[v])
        comps.append(c); seen |= c
    return comps, R
