"""Driver family: analytic (ODE) entry points - C06 (conservation, grid, initial state)."""
import itertools, warnings
import numpy as np
import networkx as nx
from . import import_eon
from .common import V, Acc, hsh
from . import graphs as gr
from . import analytic_catalog as cat

RATES = [(0.3, 0.7), (1.1, 1.0), (0.0, 0.7), (0.3, 0.0), (0.0, 0.0)]
GRIDS = [(0, 5, 11), (1.5, 4, 6), (-2, 3, 2), (1.5, 4, 1)]
DGRIDS = [(0, 5, 0), (2, 6, 0)]


def ic_of(spec):
    ic = spec["ic"]
    if ic[0] == "sets":
        return ("sets", list(ic[1]), list(ic[2]))
    return tuple(ic)


def ic_class(ic):
    if ic[0] == "sets":
        return "sets+R0" if ic[2] else "sets"
    return ic[0]


def degeneracy(G, ic, model):
    """Which singular situation of the closures the request is in (part of finding keys so that
    a recorded finding on a degenerate input cannot mask a failure on a regular one)."""
    E = cat.expected_initial(G, ic, model)
    deg = dict(G.degree())
    ks = np.arange(len(E["Sk"]))
    if E["S"] <= 0:
        return "no_susceptible"
    if float(np.dot(ks, E["Sk"])) <= 0:
        return "susceptibles_isolated"
    if E["SS"] <= 0:
        return "no_SS_pair"
    if E["I"] > 0 and E["SI"] <= 0:
        return "no_SI_pair"
    if 2.0 * G.number_of_edges() / G.order() < 1:
        return "mean_degree_below_1"
    if len(set(deg.values())) == 1:
        return "regular"
    return "generic"


def check_output(A, name, G, ic, tau, gamma, grid, full, out, cls, tag, entry=None):
    """C06 oracle for one call (`entry`: name used in finding keys, default the called function)."""
    ent = entry or name
    inf = cat.info(name)
    N = G.order()
    tolN = 1e-6 * N
    try:
        t, S, I, R, vals, lay = cat.sir_columns(name, out, full)
    except Exception as e:
        A.add(V("C06", ent, cls, "layout", "%s: output does not have the documented structure: %r" % (tag, e)))
        return
    want_len = len(lay) + 1
    if len(out) != want_len:
        A.add(V("C06", ent, cls, "layout", "%s returned %d values, documented: t + %r" % (tag, len(out), lay)))
        return
    tw = cat.times_expected(name, grid)
    if t.shape != tw.shape or not np.array_equal(t, tw):
        A.add(V("C06", ent, cls, "times", "%s: times %r are not %r" % (tag, t.tolist()[:6], tw.tolist()[:6])))
        return
    cols = [("S", S), ("I", I)] + ([("R", R)] if inf["model"] == "SIR" else [])
    for nm, c in cols:
        if c is None or c.shape != t.shape:
            A.add(V("C06", ent, cls, "layout", "%s: %s is missing or has shape %r" % (tag, nm, None if c is None else c.shape)))
            return
        if not np.all(np.isfinite(c)):
            A.add(V("C06", ent, cls, "nonfinite", "%s: %s contains nan/inf: %r" % (tag, nm, c.tolist()[:6])))
            return
    # singular regime of the closures: the susceptible pool is (numerically) exhausted during the run, so
    # terms like [SI]([SS]-[SI])/[S] are evaluated at S ~ 0; classified separately so that a recorded
    # finding there cannot mask a monotonicity/range failure in the regular regime
    if cls.startswith("degenerate:") is False and float(np.min(S)) < 1e-3 * max(1.0, N):
        cls_dyn = "degenerate:S_exhausted"
    else:
        cls_dyn = cls
    tot = sum(c for _, c in cols)
    dev = float(np.max(np.abs(tot - N)))
    A.max["conservation_dev_over_N"] = max(A.max.get("conservation_dev_over_N", 0.0), dev / N)
    if dev > tolN:
        A.add(V("C06", ent, cls, "conservation", "%s: S+I(+R) deviates from N=%d by %.3g" % (tag, N, dev), (), dev, 0.0))
    for nm, c in cols:
        if np.min(c) < -100 * tolN or np.max(c) > N + 100 * tolN:
            A.add(V("C06", ent, cls_dyn, "range", "%s: %s leaves [0,N]: min %.6g max %.6g" % (tag, nm, np.min(c), np.max(c))))
    if inf["model"] == "SIR":
        if np.max(np.diff(S)) > 1e-5 * N if len(S) > 1 else False:
            A.add(V("C06", ent, cls_dyn, "S_increases", "%s: S increases by %.3g" % (tag, np.max(np.diff(S)))))
        if np.min(np.diff(R)) < -1e-5 * N if len(R) > 1 else False:
            A.add(V("C06", ent, cls_dyn, "R_decreases", "%s: R decreases by %.3g" % (tag, -np.min(np.diff(R)))))
    # initial state
    E = cat.expected_initial(G, ic, inf["model"])
    tol0 = 1e-9 * max(1.0, N)
    for nm, c in cols:
        if abs(c[0] - E[nm]) > tol0:
            A.add(V("C06", ent, cls, "initial_" + nm, "%s: %s(tmin)=%.10g, request means %.10g" % (tag, nm, c[0], E[nm]), (), float(c[0]), E[nm]))
    if full and inf["hasfull"]:
        nodes = list(G.nodes())
        Ks = E["Ks"]
        adj = {(u, v) for u in nodes for v in G.neighbors(u)}
        for key in lay:
            x = vals[key]
            try:
                if key in ("S", "I", "R"):
                    continue
                if key in ("Sk", "Ik", "Rk", "Skappa"):
                    got = np.asarray(x)[:, 0]; want = E[key]
                elif key in ("SkK", "IkK", "RkK"):
                    got = np.asarray(x)[:, 0]; want = np.array([E[key[:2]][k] for k in Ks])
                elif key in ("SkIl", "SkSl", "IkIl", "Ssi", "Isi"):
                    got = np.asarray(x)[:, :, 0]; want = E[key]
                elif key in ("SI", "SS", "II"):
                    got = np.asarray(x)[0]; want = E[key]
                elif key == "theta":
                    got = np.asarray(x)[0]; want = 1.0
                elif key == "thetadict":
                    got = np.array([np.asarray(x[k])[0] for k in sorted(x)]); want = np.ones(len(got))
                elif key in ("Ss", "Xs"):
                    got = np.asarray(x)[:, 0]; want = np.array([E["node_S"][v] for v in nodes])
                elif key in ("Is", "Ys"):
                    got = np.asarray(x)[:, 0]; want = np.array([E["node_I"][v] for v in nodes])
                elif key in ("Rs", "Zs"):
                    got = np.asarray(x)[:, 0]; want = np.array([E["node_R"][v] for v in nodes])
                elif key in ("XY", "XX"):
                    got = np.asarray(x)[:, :, 0]
                    a = np.array([E["node_S"][v] for v in nodes])
                    b = np.array([E["node_I"][v] for v in nodes]) if key == "XY" else a
                    want = np.array([[a[i] * b[j] if (nodes[i], nodes[j]) in adj else 0.0 for j in range(len(nodes))] for i in range(len(nodes))])
                else:
                    continue
                got = np.asarray(got, dtype=float); want = np.asarray(want, dtype=float)
                if got.shape != want.shape or np.max(np.abs(got - want)) > tol0:
                    A.add(V("C06", ent, cls, "initial_aux_" + key, "%s: full-data series %r at tmin is %s, the requested state gives %s" % (tag, key, np.round(got, 6).tolist(), np.round(want, 6).tolist())))
            except Exception as e:
                A.add(V("C06", ent, cls, "layout_" + key, "%s: full-data series %r has unexpected structure: %r" % (tag, key, e)))


def base_of(name):
    return name[:-len("_from_graph")] if name.endswith("_from_graph") else None


def run_direct(spec, props=("C06",)):
    """The direct model functions behind the *_from_graph wrappers, called the way a user of the direct
    interface calls them: with the state arrays (taken from the wrapper's own delegation, which the main
    part of C06 checks against the brute-force counts) and with the documented DEFAULTS for every optional
    argument left out."""
    import inspect
    EoN, sim = import_eon()
    warnings.filterwarnings("ignore")
    np.seterr(all="ignore")
    A = Acc()
    ana = EoN.analytic
    n = spec["n"]
    G = gr.mk(n, [tuple(e) for e in spec["edges"]])
    ic = ic_of(spec)
    cls0 = ic_class(ic)
    for name in spec["names"]:
        base = base_of(name)
        if base is None or not hasattr(ana, base) or not cat.supports(name, ic):
            continue
        inf = cat.info(name)
        dg = degeneracy(G, ic, inf["model"])
        if dg != "generic":
            continue          # (the singular requests are classified and reported under the wrappers)
        cls = "direct:" + cls0
        orig = getattr(ana, base)
        sig = inspect.signature(orig)
        for (tau, gamma) in spec["rates"]:
            rec = []

            def recorder(*a, **k):
                rec.append((a, k))
                return orig(*a, **k)
            g0 = (0, 5, 0) if inf["discrete"] else (0, 5, 11)
            setattr(ana, base, recorder)
            pub = getattr(EoN, base, None)
            try:
                out_w = cat.call(EoN, name, G, ic, tau, gamma, g0, inf["hasfull"])
            except Exception as e:
                continue      # reported by the main part
            finally:
                setattr(ana, base, orig)
            if len(rec) != 1:
                A.count["no_delegation"] = A.count.get("no_delegation", 0) + 1
                continue
            ba = sig.bind(*rec[0][0], **rec[0][1]); params = dict(ba.arguments)
            A.evals += 1
            A.states.add((base, tau, gamma)); A.nontrivial.add((base, tau, gamma))
            tagb = "%s(<arrays of %s on n=%d edges=%r>, tau=%g, gamma=%g" % (base, ic, n, spec["edges"], tau, gamma)
            variants = []
            # (i) tmin and tcount left at their defaults, short horizon; return_full_data left at its default
            p1 = {k: v for k, v in params.items() if k not in ("tmin", "tcount", "return_full_data")}
            if "tmax" in sig.parameters:
                p1["tmax"] = 5
            variants.append(("defaults tmin/tcount/return_full_data, tmax=5", p1,
                             (sig.parameters["tmin"].default if "tmin" in sig.parameters else 0, 5,
                              sig.parameters["tcount"].default if "tcount" in sig.parameters else 0), False, True))
            # (ii) every optional argument at its default: only the grid and the first row
            p2 = {k: v for k, v in params.items() if k not in ("tmin", "tmax", "tcount", "return_full_data")}
            if spec.get("alldefaults") and (tau, gamma) == tuple(spec["rates"][0]):
                variants.append(("all optional arguments at their defaults", p2, (0, 100, 1001), False, False))
            # (iii) shifted grid, full data as keyword
            p3 = dict(params)
            if "tmin" in sig.parameters:
                p3["tmin"] = 2 if inf["discrete"] else 1.5
            p3["tmax"] = 6 if inf["discrete"] else 4
            if "tcount" in sig.parameters:
                p3["tcount"] = 6
            variants.append(("shifted grid", p3, (p3.get("tmin", 0), p3["tmax"], 6), bool(params.get("return_full_data", False)), True))
            for what, pp, grid, full, deep in variants:
                tag = "%s; %s)" % (tagb, what)
                try:
                    # required arguments positionally (as documented), optional ones by keyword
                    pos = [pp[k] for k, prm in sig.parameters.items() if prm.default is inspect._empty]
                    kws = {k: v for k, v in pp.items() if sig.parameters[k].default is not inspect._empty}
                    out = orig(*pos, **kws)
                except Exception as e:
                    A.add(V("C06", base, cls, "exception[%s]" % type(e).__name__, "%s raised %s: %s" % (tag, type(e).__name__, str(e)[:150])))
                    continue
                A.execs += 1
                if deep:
                    check_output(A, name, G, ic, tau, gamma, grid, full, out, cls, tag, entry=base)
                else:
                    t = np.asarray(out[0]); tw = cat.times_expected(name, grid)
                    if t.shape != tw.shape or not np.array_equal(t, tw):
                        A.add(V("C06", base, cls, "times", "%s: times %r... (%d values) are not the documented default grid %r..." % (tag, t.tolist()[:4], len(t), tw.tolist()[:4])))
                    else:
                        r0 = [float(np.asarray(c).sum(axis=0)[0]) if np.asarray(c).ndim > 1 else float(np.asarray(c)[0]) for c in out[1:]]
                        tcols = cat.sir_columns(name, out_w, inf["hasfull"])
                        w0 = [float(c[0]) for c in tcols[1:4] if c is not None]
                        try:
                            d0 = [float(c[0]) for c in cat.sir_columns(name, out, False)[1:4] if c is not None]
                        except Exception as e:
                            A.add(V("C06", base, cls, "layout", "%s: output does not have the documented structure: %r" % (tag, e))); continue
                        if any(abs(a - b) > 1e-9 * max(1, n) for a, b in zip(d0, w0)) or len(d0) != len(w0):
                            A.add(V("C06", base, cls, "initial", "%s: first row %r, the wrapper with the same arrays reports %r" % (tag, d0, w0)))
                try:
                    A.outcomes.add(hsh(np.round(np.asarray(out[1], dtype=float), 6).tolist()[:20]))
                except Exception:
                    pass
    A.trans = set(A.states)
    A.sample = {"spec": {k: v for k, v in spec.items() if k != "names"}, "direct": True}
    return A.result(props)


def run_spec(spec, props=("C06",)):
    if spec.get("direct"):
        return run_direct(spec, props)
    EoN, sim = import_eon()
    warnings.filterwarnings("ignore")
    np.seterr(all="ignore")
    A = Acc()
    n = spec["n"]
    G = gr.mk(n, [tuple(e) for e in spec["edges"]])
    for i, (u, v) in enumerate(G.edges()):
        G[u][v]["weight"] = 0.37 + 0.45 * i      # an attribute literally named 'weight' must not leak into unweighted calls
    ic = ic_of(spec)
    cls0 = ic_class(ic)
    for name in spec["names"]:
        if not cat.supports(name, ic):
            continue
        inf = cat.info(name)
        for (tau, gamma) in spec["rates"]:
            for grid in (spec["dgrids"] if inf["discrete"] else spec["grids"]):
                for full in ((False, True) if inf["hasfull"] else (False,)):
                    dg = degeneracy(G, ic, inf["model"])
                    cls = cls0 if dg == "generic" else "degenerate:" + dg
                    tag = "%s(%s, tau=%g, gamma=%g, grid=%r, full=%s) on n=%d edges=%r" % (name, ic, tau, gamma, grid, full, n, spec["edges"])
                    A.evals += 1
                    cont = {"list": list, "set": set, "tuple": tuple, "node": (lambda x: list(x)[0])}[spec.get("container", "list")]
                    try:
                        out = cat.call(EoN, name, G, ic, tau, gamma, grid, full, i0_container=cont)
                    except Exception as e:
                        A.add(V("C06", name, cls, "exception[%s]" % type(e).__name__, "%s raised %s: %s" % (tag, type(e).__name__, str(e)[:150])))
                        continue
                    A.states.add((name, tau, gamma, grid, full))
                    if G.number_of_edges() and (ic[0] != "sets" or ic[1]):
                        A.nontrivial.add((name, tau, gamma, grid, full))
                    check_output(A, name, G, ic, tau, gamma, grid, full, out, cls, tag)
                    try:
                        A.outcomes.add(hsh(np.round(np.asarray(out[1], dtype=float), 6).tolist()))
                    except Exception:
                        pass
    A.execs = A.evals
    A.trans = set(A.states)
    A.sample = {"spec": {k: v for k, v in spec.items() if k != "names"}, "entry_points": len(spec["names"])}
    return A.result(props)


def graph_set(tier):
    gs = [(n, es) for n, es in gr.small_graphs(3) if es]
    gs += [(4, es) for es in gr.shapes(4) if es]
    if tier != "quick":
        gs += [(5, es) for es in gr.shapes(5) if es]
    else:
        gs += [gr.NAMED[k] for k in ("bull", "P5", "S5", "C5")]
    return gs


def ics_for(n, tier):
    out = [["default"], ["rho", 0.2], ["rho", 0.5], ["rho", 0.05]]
    nodes = list(range(n))
    for I0 in gr.subsets(nodes, 1, 2 if tier == "quick" else min(n, 3)):
        rest = [v for v in nodes if v not in I0]
        for R0 in gr.subsets(rest, 0, 1):
            if len(I0) + len(R0) < n or True:
                out.append(["sets", list(I0), list(R0)])
    return out


def specs(tier):
    out = []
    names = cat.all_names()
    for n, es in graph_set(tier):
        ics = ics_for(n, tier)
        if n >= 4 and tier == "quick":
            ics = [ic for ic in ics if ic[0] != "sets" or (ic[1][0] in (0, n - 1) and len(ic[1]) <= 2 and (not ic[2] or ic[2][0] in (1, n - 2)))]
        for k, ic in enumerate(ics):
            # the full rate x grid product on the first two requests, the main combination elsewhere
            if k < 2 or ic[0] == "sets" and k % 5 == 0:
                out.append(dict(n=n, edges=es, ic=ic, names=names, rates=RATES, grids=GRIDS[:1], dgrids=DGRIDS[:1]))
                out.append(dict(n=n, edges=es, ic=ic, names=names, rates=RATES[:1], grids=GRIDS[1:], dgrids=DGRIDS[1:]))
            else:
                out.append(dict(n=n, edges=es, ic=ic, names=names, rates=RATES[:2], grids=GRIDS[:1], dgrids=DGRIDS[:1]))
            if ic[0] == "sets" and n <= 4:
                for cont in ("set", "tuple"):
                    if k % 3:
                        continue
                    out.append(dict(n=n, edges=es, ic=ic, names=names, rates=RATES[:1], grids=GRIDS[:1], dgrids=DGRIDS[:1], container=cont))
            if n <= 4 or k < 6:
                out.append(dict(n=n, edges=es, ic=ic, names=names, rates=RATES[:2] + RATES[3:4], direct=True, alldefaults=(k in (1, 4))))
    return out
