"""Driver family: analytic (ODE) entry points - C06 (conservation, grid, initial state)."""
import itertools, warnings
import numpy as np
import networkx as nx
from . import import_eon
from .common import V, Acc, hsh
from . import graphs as gr
from . import analytic_catalog as cat

RATES = [(0.3, 0.7), (1.1, 1.0), (0.0, 0.7), (0.3, 0.0), (0.0, 0.0)]
GRIDS = [(0, 5, 11), (1.5, 4, 6), (-2, 3, 2)]
DGRIDS = [(0, 5, 0), (2, 6, 0)]


def ic_of(spec):
    ic = spec["ic"]
    if ic[0] == "sets":
        return ("sets", list(ic[1]), list(ic[2]))
    return tuple(ic)


def ic_class(ic):
    if ic[0] == "sets":
        return "sets+R0" if ic[2] else "sets"
    return ic[0]


def degeneracy(G, ic, model):
    """Which singular situation of the closures the request is in (part of finding keys so that
    a recorded finding on a degenerate input cannot mask a failure on a regular one)."""
    E = cat.expected_initial(G, ic, model)
    deg = dict(G.degree())
    ks = np.arange(len(E["Sk"]))
    if E["S"] <= 0:
        return "no_susceptible"
    if float(np.dot(ks, E["Sk"])) <= 0:
        return "susceptibles_isolated"
    if E["SS"] <= 0:
        return "no_SS_pair"
    if E["I"] > 0 and E["SI"] <= 0:
        return "no_SI_pair"
    if 2.0 * G.number_of_edges() / G.order() < 1:
        return "mean_degree_below_1"
    if len(set(deg.values())) == 1:
        return "regular"
    return "generic"


def check_output(A, name, G, ic, tau, gamma, grid, full, out, cls, tag):
    """C06 oracle for one call."""
    inf = cat.info(name)
    N = G.order()
    tolN = 1e-6 * N
    try:
        t, S, I, R, vals, lay = cat.sir_columns(name, out, full)
    except Exception as e:
        A.add(V("C06", name, cls, "layout", "%s: output does not have the documented structure: %r" % (tag, e)))
        return
    want_len = len(lay) + 1
    if len(out) != want_len:
        A.add(V("C06", name, cls, "layout", "%s returned %d values, documented: t + %r" % (tag, len(out), lay)))
        return
    tw = cat.times_expected(name, grid)
    if t.shape != tw.shape or not np.array_equal(t, tw):
        A.add(V("C06", name, cls, "times", "%s: times %r are not %r" % (tag, t.tolist()[:6], tw.tolist()[:6])))
        return
    cols = [("S", S), ("I", I)] + ([("R", R)] if inf["model"] == "SIR" else [])
    for nm, c in cols:
        if c is None or c.shape != t.shape:
            A.add(V("C06", name, cls, "layout", "%s: %s is missing or has shape %r" % (tag, nm, None if c is None else c.shape)))
            return
        if not np.all(np.isfinite(c)):
            A.add(V("C06", name, cls, "nonfinite", "%s: %s contains nan/inf: %r" % (tag, nm, c.tolist()[:6])))
            return
    # singular regime of the closures: the susceptible pool is (numerically) exhausted during the run, so
    # terms like [SI]([SS]-[SI])/[S] are evaluated at S ~ 0; classified separately so that a recorded
    # finding there cannot mask a monotonicity/range failure in the regular regime
    if cls.startswith("degenerate:") is False and float(np.min(S)) < 1e-3 * max(1.0, N):
        cls_dyn = "degenerate:S_exhausted"
    else:
        cls_dyn = cls
    tot = sum(c for _, c in cols)
    dev = float(np.max(np.abs(tot - N)))
    A.max["conservation_dev_over_N"] = max(A.max.get("conservation_dev_over_N", 0.0), dev / N)
    if dev > tolN:
        A.add(V("C06", name, cls, "conservation", "%s: S+I(+R) deviates from N=%d by %.3g" % (tag, N, dev), (), dev, 0.0))
    for nm, c in cols:
        if np.min(c) < -100 * tolN or np.max(c) > N + 100 * tolN:
            A.add(V("C06", name, cls_dyn, "range", "%s: %s leaves [0,N]: min %.6g max %.6g" % (tag, nm, np.min(c), np.max(c))))
    if inf["model"] == "SIR":
        if np.max(np.diff(S)) > 1e-5 * N if len(S) > 1 else False:
            A.add(V("C06", name, cls_dyn, "S_increases", "%s: S increases by %.3g" % (tag, np.max(np.diff(S)))))
        if np.min(np.diff(R)) < -1e-5 * N if len(R) > 1 else False:
            A.add(V("C06", name, cls_dyn, "R_decreases", "%s: R decreases by %.3g" % (tag, -np.min(np.diff(R)))))
    # initial state
    E = cat.expected_initial(G, ic, inf["model"])
    tol0 = 1e-9 * max(1.0, N)
    for nm, c in cols:
        if abs(c[0] - E[nm]) > tol0:
            A.add(V("C06", name, cls, "initial_" + nm, "%s: %s(tmin)=%.10g, request means %.10g" % (tag, nm, c[0], E[nm]), (), float(c[0]), E[nm]))
    if full and inf["hasfull"]:
        nodes = list(G.nodes())
        Ks = E["Ks"]
        adj = {(u, v) for u in nodes for v in G.neighbors(u)}
        for key in lay:
            x = vals[key]
            try:
                if key in ("S", "I", "R"):
                    continue
                if key in ("Sk", "Ik", "Rk", "Skappa"):
                    got = np.asarray(x)[:, 0]; want = E[key]
                elif key in ("SkK", "IkK", "RkK"):
                    got = np.asarray(x)[:, 0]; want = np.array([E[key[:2]][k] for k in Ks])
                elif key in ("SkIl", "SkSl", "IkIl", "Ssi", "Isi"):
                    got = np.asarray(x)[:, :, 0]; want = E[key]
                elif key in ("SI", "SS", "II"):
                    got = np.asarray(x)[0]; want = E[key]
                elif key == "theta":
                    got = np.asarray(x)[0]; want = 1.0
                elif key == "thetadict":
                    got = np.array([np.asarray(x[k])[0] for k in sorted(x)]); want = np.ones(len(got))
                elif key in ("Ss", "Xs"):
                    got = np.asarray(x)[:, 0]; want = np.array([E["node_S"][v] for v in nodes])
                elif key in ("Is", "Ys"):
                    got = np.asarray(x)[:, 0]; want = np.array([E["node_I"][v] for v in nodes])
                elif key in ("Rs", "Zs"):
                    got = np.asarray(x)[:, 0]; want = np.array([E["node_R"][v] for v in nodes])
                elif key in ("XY", "XX"):
                    got = np.asarray(x)[:, :, 0]
                    a = np.array([E["node_S"][v] for v in nodes])
                    b = np.array([E["node_I"][v] for v in nodes]) if key == "XY" else a
                    want = np.array([[a[i] * b[j] if (nodes[i], nodes[j]) in adj else 0.0 for j in range(len(nodes))] for i in range(len(nodes))])
                else:
                    continue
                got = np.asarray(got, dtype=float); want = np.asarray(want, dtype=float)
                if got.shape != want.shape or np.max(np.abs(got - want)) > tol0:
                    A.add(V("C06", name, cls, "initial_aux_" + key, "%s: full-data series %r at tmin is %s, the requested state gives %s" % (tag, key, np.round(got, 6).tolist(), np.round(want, 6).tolist())))
            except Exception as e:
                A.add(V("C06", name, cls, "layout_" + key, "%s: full-data series %r has unexpected structure: %r" % (tag, key, e)))


def run_spec(spec, props=("C06",)):
    EoN, sim = import_eon()
    warnings.filterwarnings("ignore")
    np.seterr(all="ignore")
    A = Acc()
    n = spec["n"]
    G = gr.mk(n, [tuple(e) for e in spec["edges"]])
    for i, (u, v) in enumerate(G.edges()):
        G[u][v]["weight"] = 0.37 + 0.45 * i      # an attribute literally named 'weight' must not leak into unweighted calls
    ic = ic_of(spec)
    cls0 = ic_class(ic)
    for name in spec["names"]:
        if not cat.supports(name, ic):
            continue
        inf = cat.info(name)
        for (tau, gamma) in spec["rates"]:
            for grid in (spec["dgrids"] if inf["discrete"] else spec["grids"]):
                for full in ((False, True) if inf["hasfull"] else (False,)):
                    dg = degeneracy(G, ic, inf["model"])
                    cls = cls0 if dg == "generic" else "degenerate:" + dg
                    tag = "%s(%s, tau=%g, gamma=%g, grid=%r, full=%s) on n=%d edges=%r" % (name, ic, tau, gamma, grid, full, n, spec["edges"])
                    A.evals += 1
                    cont = {"list": list, "set": set, "tuple": tuple, "node": (lambda x: list(x)[0])}[spec.get("container", "list")]
                    try:
                        out = cat.call(EoN, name, G, ic, tau, gamma, grid, full, i0_container=cont)
                    except Exception as e:
                        A.add(V("C06", name, cls, "exception[%s]" % type(e).__name__, "%s raised %s: %s" % (tag, type(e).__name__, str(e)[:150])))
                        continue
                    A.states.add((name, tau, gamma, grid, full))
                    if G.number_of_edges() and (ic[0] != "sets" or ic[1]):
                        A.nontrivial.add((name, tau, gamma, grid, full))
                    check_output(A, name, G, ic, tau, gamma, grid, full, out, cls, tag)
                    try:
                        A.outcomes.add(hsh(np.round(np.asarray(out[1], dtype=float), 6).tolist()))
                    except Exception:
                        pass
    A.execs = A.evals
    A.trans = set(A.states)
    A.sample = {"spec": {k: v for k, v in spec.items() if k != "names"}, "entry_points": len(spec["names"])}
    return A.result(props)


def graph_set(tier):
    gs = [(n, es) for n, es in gr.small_graphs(3) if es]
    gs += [(4, es) for es in gr.shapes(4) if es]
    if tier != "quick":
        gs += [(5, es) for es in gr.shapes(5) if es]
    else:
        gs += [gr.NAMED[k] for k in ("bull", "P5", "S5", "C5")]
    return gs


def ics_for(n, tier):
    out = [["default"], ["rho", 0.2], ["rho", 0.5], ["rho", 0.05]]
    nodes = list(range(n))
    for I0 in gr.subsets(nodes, 1, 2 if tier == "quick" else min(n, 3)):
        rest = [v for v in nodes if v not in I0]
        for R0 in gr.subsets(rest, 0, 1):
            if len(I0) + len(R0) < n or True:
                out.append(["sets", list(I0), list(R0)])
    return out


def specs(tier):
    out = []
    names = cat.all_names()
    for n, es in graph_set(tier):
        ics = ics_for(n, tier)
        if n >= 4 and tier == "quick":
            ics = [ic for ic in ics if ic[0] != "sets" or (ic[1][0] in (0, n - 1) and len(ic[1]) <= 2 and (not ic[2] or ic[2][0] in (1, n - 2)))]
        for k, ic in enumerate(ics):
            # the full rate x grid product on the first two requests, the main combination elsewhere
            if k < 2 or ic[0] == "sets" and k % 5 == 0:
                out.append(dict(n=n, edges=es, ic=ic, names=names, rates=RATES, grids=GRIDS[:1], dgrids=DGRIDS[:1]))
                out.append(dict(n=n, edges=es, ic=ic, names=names, rates=RATES[:1], grids=GRIDS[1:], dgrids=DGRIDS[1:]))
            else:
                out.append(dict(n=n, edges=es, ic=ic, names=names, rates=RATES[:2], grids=GRIDS[:1], dgrids=DGRIDS[:1]))
            if ic[0] == "sets" and n <= 4:
                for cont in ("set", "tuple"):
                    if k % 3:
                        continue
                    out.append(dict(n=n, edges=es, ic=ic, names=names, rates=RATES[:1], grids=GRIDS[:1], dgrids=DGRIDS[:1], container=cont))
    return out
