"""Driver family: relations between ODE models (C07 agreement, C08 exactness)."""
import itertools, warnings, math
import numpy as np
import networkx as nx
from . import import_eon
from .common import V, Acc, hsh
from . import graphs as gr
from . import analytic_catalog as cat

TOL7 = 2e-5


def maxdev(a, b):
    return float(max(np.max(np.abs(np.asarray(x) - np.asarray(y))) for x, y in zip(a, b)))


def pgf_from_hist(Nk):
    N = float(sum(Nk))
    Pk = {k: Nk[k] / N for k in range(len(Nk)) if Nk[k] > 0}
    psi = lambda x: sum(Pk[k] * x ** k for k in Pk)
    psiP = lambda x: sum(k * Pk[k] * x ** (k - 1) for k in Pk if k >= 1)
    psiDP = lambda x: sum(k * (k - 1) * Pk[k] * x ** (k - 2) for k in Pk if k >= 2)
    return Pk, psi, psiP, psiDP


def hierarchy_from_hist(EoN, Nk, rho, tau, gamma, grid):
    """The SIR hierarchy called directly with arrays built from a degree histogram."""
    from scipy.special import comb
    tmin, tmax, tcount = grid
    Nk = np.array(Nk, dtype=float)
    N = Nk.sum()
    ks = np.arange(len(Nk))
    Pk, psi, psiP, psiDP = pgf_from_hist(Nk)
    kw = dict(tmin=tmin, tmax=tmax, tcount=tcount)
    out = {}
    out["EBCM_uniform_introduction"] = EoN.EBCM_uniform_introduction(N, psi, psiP, tau, gamma, rho, **kw)
    psihat = lambda x: (1 - rho) * psi(x)
    psihatP = lambda x: (1 - rho) * psiP(x)
    psihatDP = lambda x: (1 - rho) * psiDP(x)
    out["EBCM"] = EoN.EBCM(N, psihat, psihatP, tau, gamma, 1 - rho, **kw)
    Sk0 = (1 - rho) * Nk
    SX0 = float(np.dot(Sk0, ks))
    out["SIR_compact_pairwise"] = EoN.SIR_compact_pairwise(Sk0.copy(), rho * N, 0.0, (1 - rho) * SX0, rho * SX0, tau, gamma, **kw)
    out["SIR_super_compact_pairwise"] = EoN.SIR_super_compact_pairwise(0.0, (1 - rho) * SX0, rho * SX0, N, tau, gamma, psihat, psihatP, psihatDP, **kw)
    maxk = len(Nk) - 1
    Ssi = np.zeros((maxk + 1, maxk + 1))
    for s in range(maxk + 1):
        for i in range(maxk + 1 - s):
            Ssi[s, i] = (1 - rho) * Nk[s + i] * comb(s + i, i) * rho ** i * (1 - rho) ** s
    out["SIR_effective_degree"] = EoN.SIR_effective_degree(Ssi, rho * N, 0.0, tau, gamma, **kw)
    out["SIR_compact_effective_degree"] = EoN.SIR_compact_effective_degree(Sk0.copy(), rho * N, 0.0, rho * SX0, tau, gamma, **kw)
    # preferential mixing with uncorrelated mixing: Pnk[k][k'] = k' P_k' / <k>
    kave = sum(k * Pk[k] for k in Pk)
    Pnk = {k: {k2: k2 * Pk[k2] / kave for k2 in Pk if k2 > 0} for k in Pk}
    out["EBCM_pref_mix"] = EoN.EBCM_pref_mix(N, Pk, Pnk, tau, gamma, rho=rho, **kw)
    return out


def run_spec(spec, props=("C07", "C08")):
    EoN, sim = import_eon()
    warnings.filterwarnings("ignore")
    np.seterr(all="ignore")
    A = Acc()
    kind = spec["kind"]
    if kind == "hier_hist":
        Nk = spec["Nk"]; N = float(sum(Nk))
        for rho in spec["rhos"]:
            for (tau, gamma) in spec["rates"]:
                for grid in spec["grids"]:
                    A.evals += 1
                    tag = "degree histogram %r, rho=%g, tau=%g, gamma=%g, grid=%r" % (Nk, rho, tau, gamma, grid)
                    try:
                        out = hierarchy_from_hist(EoN, Nk, rho, tau, gamma, tuple(grid))
                    except Exception as e:
                        A.add(V("C07", "SIR_hierarchy", "histogram", "exception", "%s: raised %s: %s" % (tag, type(e).__name__, str(e)[:120]))); continue
                    ref = out["EBCM_uniform_introduction"]
                    A.states.add((tuple(Nk), rho, tau, gamma, tuple(grid))); A.nontrivial.add((tuple(Nk), rho, tau, gamma, tuple(grid)))
                    for name, o in out.items():
                        if not all(np.all(np.isfinite(np.asarray(x, dtype=float))) for x in o[1:4]):
                            A.add(V("C07", name, "histogram", "nonfinite", "%s: %s returns nan" % (tag, name))); continue
                        d = maxdev(o[1:4], ref[1:4]) / N
                        A.max["max_rel_dev_hierarchy"] = max(A.max.get("max_rel_dev_hierarchy", 0.0), d)
                        A.trans.add((name, tuple(Nk), rho, tau, gamma))
                        if d > TOL7:
                            A.add(V("C07", name, "histogram", "disagrees_with_EBCM", "%s: %s differs from EBCM by %.3g N" % (tag, name, d), (), d, TOL7))
                    A.outcomes.add(hsh(np.round(ref[3], 6).tolist()))
                    # discrete pair
                    if tau > 0:
                        p = 0.4
                        Pk, psi, psiP, psiDP = pgf_from_hist(Nk)
                        kave = sum(k * Pk[k] for k in Pk)
                        Pnk = {k: {k2: k2 * Pk[k2] / kave for k2 in Pk if k2 > 0} for k in Pk}
                        a = EoN.EBCM_discrete_uniform_introduction(N, psi, psiP, p, rho, tmax=6)
                        b = EoN.EBCM_pref_mix_discrete(N, Pk, Pnk, p, rho=rho, tmax=6)
                        d = maxdev(a[1:4], b[1:4]) / N
                        A.max["max_rel_dev_discrete_prefmix"] = max(A.max.get("max_rel_dev_discrete_prefmix", 0.0), d)
                        if d > TOL7:
                            A.add(V("C07", "EBCM_pref_mix_discrete", "histogram", "disagrees_with_EBCM_discrete", "%s: differs by %.3g N" % (tag, d), (), d, TOL7))
                        # the same pair on a shifted time axis (tmin != 0: tmax stays an absolute end time in both)
                        try:
                            a2 = EoN.EBCM_discrete(N, (lambda x: (1 - rho) * psi(x)), (lambda x: (1 - rho) * psiP(x)), p, 1 - rho, tmin=2, tmax=6)
                            b2 = EoN.EBCM_pref_mix_discrete(N, Pk, Pnk, p, rho=rho, tmin=2, tmax=6)
                            if len(a2[0]) != len(b2[0]) or list(a2[0]) != list(b2[0]):
                                A.add(V("C07", "EBCM_pref_mix_discrete", "histogram", "disagrees_with_EBCM_discrete", "%s, tmin=2, tmax=6: time axes differ: EBCM_discrete %r, EBCM_pref_mix_discrete %r" % (tag, list(a2[0]), list(b2[0]))))
                            else:
                                d2 = maxdev(a2[1:4], b2[1:4]) / N
                                if d2 > TOL7:
                                    A.add(V("C07", "EBCM_pref_mix_discrete", "histogram", "disagrees_with_EBCM_discrete", "%s, tmin=2, tmax=6: differs by %.3g N" % (tag, d2), (), d2, TOL7))
                        except Exception as e:
                            A.add(V("C07", "EBCM_pref_mix_discrete", "histogram", "exception", "%s, tmin=2: raised %s: %s" % (tag, type(e).__name__, str(e)[:100])))
        A.execs = A.evals
        A.sample = {"spec": spec}
        return A.result(props)
    if kind == "hier_graph":
        G = gr.mk(spec["n"], [tuple(e) for e in spec["edges"]]); N = float(G.order())
        # degree = what G.degree() says: a self-loop counts twice, parallel edges of a MultiGraph count separately
        for v in spec.get("loops", []):
            G.add_edge(v, v)
        if spec.get("multi"):
            G = nx.MultiGraph(G)
            G.add_edges_from([tuple(e) for e in spec["multi"]])
        names = ["EBCM_from_graph", "SIR_compact_pairwise_from_graph", "SIR_super_compact_pairwise_from_graph",
                 "SIR_effective_degree_from_graph", "SIR_compact_effective_degree_from_graph", "EBCM_pref_mix_from_graph"]
        # the same graph OBJECT analysed again after it was edited in place (nothing about a graph may be remembered
        # across calls): phase 1 adds one edge to G and repeats every comparison
        for phase in ((0, 1, 2) if spec.get("edit") else (0,)):
            phase_tag = ""
            if phase == 1:
                e1 = next((a_, b_) for a_, b_ in G.edges() if {a_, b_} != set(spec["edit"]))
                G.remove_edge(*e1); G.add_edge(*spec["edit"])       # same numbers of nodes and edges, different degrees
                phase_tag = " [same graph object after replacing edge %r by %r in place]" % (e1, tuple(spec["edit"]))
            if phase == 2:
                G.add_edge(*e1)
                phase_tag = " [same graph object after adding edge %r in place]" % (e1,)
            for rho in spec["rhos"]:
                for (tau, gamma) in spec["rates"]:
                    for grid in spec["grids"]:
                        A.evals += 1
                        tag = "graph n=%d edges=%r%s%s, rho=%g, tau=%g, gamma=%g, grid=%r" % (spec["n"], spec["edges"], (" + self-loops at %r" % spec["loops"]) if spec.get("loops") else "", (" + parallel edges %r (MultiGraph)" % spec["multi"]) if spec.get("multi") else "", rho, tau, gamma, grid) + phase_tag
                        outs = {}
                        for name in names:
                            if name == "EBCM_pref_mix_from_graph" and not spec.get("uncorrelated"):
                                continue
                            try:
                                outs[name] = cat.call(EoN, name, G, ("rho", rho), tau, gamma, tuple(grid), False)
                            except Exception as e:
                                A.add(V("C07", name, "graph", "exception", "%s: %s raised %s: %s" % (tag, name, type(e).__name__, str(e)[:100])))
                        if "EBCM_from_graph" not in outs:
                            continue
                        ref = outs["EBCM_from_graph"]
                        A.states.add((spec["n"], tuple(map(tuple, spec["edges"])), rho, tau, gamma, tuple(grid))); A.nontrivial.add((hsh(spec["edges"]), rho, tau, gamma, tuple(grid)))
                        for name, o in outs.items():
                            d = maxdev(o[1:4], ref[1:4]) / N
                            if not np.isfinite(d):
                                A.add(V("C07", name, "graph", "nonfinite", "%s: %s returns nan" % (tag, name))); continue
                            A.max["max_rel_dev_hierarchy"] = max(A.max.get("max_rel_dev_hierarchy", 0.0), d)
                            A.trans.add((name, hsh(spec["edges"]), rho, tau, gamma))
                            if d > TOL7:
                                A.add(V("C07", name, "graph", "disagrees_with_EBCM", "%s: %s differs from EBCM_from_graph by %.3g N" % (tag, name, d), (), d, TOL7))
                        A.outcomes.add(hsh(np.round(ref[3], 6).tolist()))
        A.execs = A.evals
        A.sample = {"spec": spec}
        return A.result(props)
    if kind == "regular":
        G = gr.mk(spec["n"], [tuple(e) for e in spec["edges"]]); N = float(G.order())
        for i, (u, v) in enumerate(G.edges()):
            G[u][v]["weight"] = 0.37 + 0.45 * i      # an attribute literally named 'weight' must not leak into unweighted calls
        for model in ("SIS", "SIR"):
            pair_family = [model + "_heterogeneous_pairwise_from_graph", model + "_compact_pairwise_from_graph", model + "_pair_based", model + "_homogeneous_pairwise_from_graph"]
            mf_family = [model + "_heterogeneous_meanfield_from_graph", model + "_individual_based", model + "_homogeneous_meanfield_from_graph"]
            for fam, famname in ((pair_family, "pairwise"), (mf_family, "meanfield")):
                for rho in list(spec["rhos"]) + ([-1.0] if spec["n"] >= 3 else []):      # -1.0 stands for "rho left out": the documented default 1/N
                    for (tau, gamma), grid in [(r_, tuple(g_)) for r_ in spec["rates"] for g_ in spec["grids"]]:
                        A.evals += 1
                        tag = "%s-regular graph %s (n=%d), %s %s family, rho=%g, tau=%g, gamma=%g" % (spec["degree"], spec["name"], spec["n"], model, famname, rho, tau, gamma)
                        outs = {}
                        for name in fam:
                            try:
                                if rho < 0 and not cat.supports(name, ("default",)):
                                    continue       # (the node-level models have no default initial condition)
                                outs[name] = cat.call(EoN, name, G, (("rho", rho) if rho >= 0 else ("default",)), tau, gamma, grid, False)
                            except Exception as e:
                                A.add(V("C07", name, "regular", "exception", "%s: %s raised %s: %s" % (tag, name, type(e).__name__, str(e)[:100])))
                        if len(outs) < 2:
                            continue
                        ref = outs[fam[-1]] if fam[-1] in outs else list(outs.values())[0]
                        k = 4 if model == "SIR" else 3
                        A.states.add((spec["name"], model, famname, rho, tau, gamma, grid)); A.nontrivial.add((spec["name"], model, famname, rho, tau, gamma, grid))
                        for name, o in outs.items():
                            d = maxdev(o[1:k], ref[1:k]) / N
                            if not np.isfinite(d):
                                A.add(V("C07", name, "regular", "nonfinite", "%s: %s returns nan" % (tag, name))); continue
                            A.max["max_rel_dev_regular"] = max(A.max.get("max_rel_dev_regular", 0.0), d)
                            A.trans.add((name, spec["name"], rho, tau, gamma))
                            if d > TOL7:
                                A.add(V("C07", name, "regular", "disagrees_with_homogeneous", "%s: %s differs from %s by %.3g N" % (tag, name, fam[-1], d), (), d, TOL7))
                        A.outcomes.add(hsh(np.round(ref[2], 6).tolist()))
        A.execs = A.evals
        A.sample = {"spec": spec}
        return A.result(props)
    raise ValueError(kind)


def specs_c07(tier):
    out = []
    thorough = tier != "quick"
    rates = [(0.3, 0.7), (1.1, 1.0), (0.3, 0.0)] if not thorough else [(0.3, 0.7), (1.1, 1.0), (0.3, 0.0), (1.1, 0.7), (0.0, 0.7)]
    rhos = [0.05, 0.2, 0.5]
    grids = [[0, 3, 7], [1.5, 3.5, 5]] + ([[0, 10, 11], [-2, 1, 4]] if thorough else [])
    # degree histograms kmax<=4, counts<=3 (quick: counts<=2, kmax<=3 + a selection)
    cm = 3 if thorough else 2
    km = 4 if thorough else 3
    for Nk in itertools.product(range(cm + 1), repeat=km + 1):
        if sum(Nk[1:]) == 0:
            continue
        if not thorough and sum(1 for x in Nk if x) > 3:
            continue
        out.append(dict(kind="hier_hist", Nk=list(Nk), rhos=rhos if thorough else rhos[1:2] + rhos[:1], rates=rates[:2] if not thorough else rates, grids=grids[:2]))
    gs = [(4, es) for es in gr.shapes(4) if es] + [(5, es) for es in gr.shapes(5) if es]
    for n, es in gs:
        G = gr.mk(n, es)
        out.append(dict(kind="hier_graph", n=n, edges=es, rhos=rhos, rates=rates, grids=grids, uncorrelated=False))
    for n, es in [gr.NAMED["paw"], gr.NAMED["P4"], gr.NAMED["bull"], gr.NAMED["S4"], gr.NAMED["C5"]]:
        nonedge = [(u, v) for u in range(n) for v in range(u + 1, n) if (u, v) not in [tuple(sorted(e)) for e in es]][0]
        out.append(dict(kind="hier_graph", n=n, edges=es, edit=list(nonedge), rhos=rhos[:2], rates=rates[:2], grids=grids[:1], uncorrelated=False))
    for n, es in [gr.NAMED["paw"], gr.NAMED["P4"], gr.NAMED["bull"], gr.NAMED["S4"]]:
        out.append(dict(kind="hier_graph", n=n, edges=es, loops=[1], rhos=rhos, rates=rates[:2], grids=grids[:1], uncorrelated=False))
        out.append(dict(kind="hier_graph", n=n, edges=es, loops=[0, n - 1], rhos=rhos, rates=rates[:2], grids=grids[:1], uncorrelated=False))
        out.append(dict(kind="hier_graph", n=n, edges=es, multi=[list(es[0]), list(es[-1])], rhos=rhos, rates=rates[:2], grids=grids[:1], uncorrelated=False))
        out.append(dict(kind="hier_graph", n=n, edges=es, loops=[1], multi=[list(es[0]), list(es[0])], rhos=rhos, rates=rates[:2], grids=grids[:1], uncorrelated=False))
    for name, n, es in gr.regular_graphs():
        if n > 8 and not thorough:
            continue
        deg = 2 * len(es) // n
        out.append(dict(kind="regular", name=name, n=n, edges=es, degree=deg, rhos=rhos if thorough else rhos[:2], rates=rates[:2] if not thorough else rates[:3], grids=[[0, 3, 7], [1.5, 3.5, 5]] + ([[-2, 1, 4]] if thorough else [])))
    return out
