"""Helpers shared by the driver families."""
from .ref import num, INF


def V(prop, entry, cls, symptom, msg, prefix=(), observed=None, expected=None):
    return {"prop": prop, "key": "%s|%s|%s|%s" % (prop, entry, cls, symptom), "msg": msg,
            "prefix": list(prefix), "observed": observed, "expected": expected}


class Acc(object):
    """Per-spec result accumulator."""

    def __init__(self):
        self.execs = 0; self.states = set(); self.trans = set(); self.outcomes = set()
        self.evals = 0; self.nontrivial = set(); self.viol = []; self.sample = None
        self.caps = []; self.max = {}; self.count = {}; self.selfchecks = 0
        self._seen = set()

    def add(self, v):
        """Keep one (the first = smallest-prefix-first is decided by the runner) violation per key
        and a bounded number overall."""
        k = v["key"]
        if k in self._seen:
            self.count["dup_violations"] = self.count.get("dup_violations", 0) + 1
            # keep the shorter witness
            for i, w in enumerate(self.viol):
                if w["key"] == k and len(v["prefix"]) < len(w["prefix"]):
                    self.viol[i] = v
            return
        self._seen.add(k)
        self.viol.append(v)

    def result(self, props=None):
        viol = self.viol if props is None else [v for v in self.viol if v["prop"] in props]
        return {"execs": self.execs, "states": len(self.states), "transitions": len(self.trans),
                "evals": self.evals or self.execs, "nontrivial": len(self.nontrivial),
                "outcomes": len(self.outcomes), "violations": viol, "sample": self.sample,
                "caps": self.caps, "max": self.max, "count": self.count,
                "selfchecks": self.selfchecks}


def hsh(x):
    import hashlib
    return hashlib.md5(repr(x).encode()).hexdigest()[:16]
