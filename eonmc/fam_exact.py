"""Driver family: ODE models are exact where theory says so (C08)."""
import itertools, warnings
import numpy as np
import networkx as nx
from . import import_eon
from .common import V, Acc, hsh
from . import graphs as gr
from . import analytic_catalog as cat
from .fam_equiv import pgf_from_hist, maxdev


def master_sir(G, nodes, tau, gamma, wE, wN, I0, R0, times, cache=None):
    """Exact expected S,I,R(t) of the SIR chain: 3^N-state generator, matrix exponential."""
    from scipy.linalg import expm
    N = len(nodes)
    if cache is not None and "Q" in cache:
        return _propagate(cache, nodes, I0, R0, times)
    idx = {v: i for i, v in enumerate(nodes)}
    M = 3 ** N
    pw = [3 ** i for i in range(N)]
    def dig(s, i): return (s // pw[i]) % 3          # 0=S 1=I 2=R
    Q = np.zeros((M, M))
    for s in range(M):
        for u in nodes:
            i = idx[u]
            if dig(s, i) == 1:
                r = gamma * wN(u)
                if r > 0:
                    t = s + pw[i]            # I -> R
                    Q[s, t] += r; Q[s, s] -= r
                for v in G.neighbors(u):
                    j = idx[v]
                    if dig(s, j) == 0:
                        r = tau * wE(u, v)
                        if r > 0:
                            t = s + pw[j]    # S -> I
                            Q[s, t] += r; Q[s, s] -= r
    cS = np.array([sum(1 for i in range(N) if dig(s, i) == 0) for s in range(M)], dtype=float)
    cI = np.array([sum(1 for i in range(N) if dig(s, i) == 1) for s in range(M)], dtype=float)
    c = cache if cache is not None else {}
    c.update(Q=Q, cS=cS, cI=cI, pw=pw, idx=idx, P={})
    return _propagate(c, nodes, I0, R0, times)


def _propagate(c, nodes, I0, R0, times):
    from scipy.linalg import expm
    N = len(nodes)
    Q, cS, cI, pw, idx = c["Q"], c["cS"], c["cI"], c["pw"], c["idx"]
    cR = N - cS - cI
    s0 = sum((1 if v in I0 else (2 if v in R0 else 0)) * pw[idx[v]] for v in nodes)
    p = np.zeros(Q.shape[0]); p[s0] = 1.0
    out = [(p @ cS, p @ cI, p @ cR)]
    for dt in np.diff(times):
        k = round(float(dt), 12)
        if k not in c["P"]:
            c["P"][k] = expm(Q * dt)
        p = p @ c["P"][k]
        out.append((p @ cS, p @ cI, p @ cR))
    a = np.array(out)
    return a[:, 0], a[:, 1], a[:, 2]


def run_spec(spec, props=("C08",)):
    EoN, sim = import_eon()
    warnings.filterwarnings("ignore")
    np.seterr(all="ignore")
    A = Acc()
    kind = spec["kind"]
    if kind == "tree":
        n = spec["n"]; es = [tuple(e) for e in spec["edges"]]
        G = gr.mk(n, es)
        nodes = list(G.nodes())
        mode = spec["weights"]
        tw = rw = None
        if mode in ("edge_weight", "edge_custom", "both"):
            tw = "weight" if mode == "edge_weight" else "ew"
            for i, (u, v) in enumerate(es):
                G[u][v][tw] = [0.5, 1.3, 0.2, 0.9, 1.7, 0.4][i % 6]
        if mode in ("node", "both"):
            rw = "rw"
            for u in nodes:
                G.nodes[u][rw] = gr.NODE_W[u % len(gr.NODE_W)]
        wE = (lambda u, v: G[u][v][tw]) if tw else (lambda u, v: 1.0)
        wN = (lambda u: G.nodes[u][rw]) if rw else (lambda u: 1.0)
        tau, gamma = spec["tau"], spec["gamma"]
        times = np.linspace(0, spec["tmax"], spec["tcount"])
        mcache = {}
        for (I0, R0) in spec["seeds"]:
            A.evals += 1
            tag = "tree n=%d edges=%r weights=%s, I0=%r R0=%r, tau=%g gamma=%g" % (n, es, mode, I0, R0, tau, gamma)
            try:
                o = EoN.SIR_pair_based_pure_IC(G, tau, gamma, list(I0), initial_recovereds=(list(R0) if R0 else None),
                                               tmin=0, tmax=spec["tmax"], tcount=spec["tcount"], transmission_weight=tw, recovery_weight=rw)
            except Exception as e:
                A.add(V("C08", "SIR_pair_based_pure_IC", "tree:" + mode, "exception", "%s raised %s: %s" % (tag, type(e).__name__, str(e)[:100]))); continue
            S, I, R = master_sir(G, nodes, tau, gamma, wE, wN, set(I0), set(R0), times, cache=mcache)
            d = maxdev(o[1:4], (S, I, R))
            A.max["max_abs_dev_pair_based_vs_master"] = max(A.max.get("max_abs_dev_pair_based_vs_master", 0.0), d if np.isfinite(d) else 1e9)
            A.states.add((n, tuple(es), mode, tuple(I0), tuple(R0))); A.nontrivial.add((n, tuple(es), mode, tuple(I0), tuple(R0)))
            A.trans.add((n, tuple(es), mode, tuple(I0), tuple(R0)))
            A.outcomes.add(hsh(np.round(R, 6).tolist()))
            if not np.isfinite(d) or d > 1e-6:
                A.add(V("C08", "SIR_pair_based_pure_IC", "tree:" + mode, "not_exact_on_tree", "%s: differs from the master equation by %.3g (R(tmax)=%.6f vs %.6f)" % (tag, d, o[3][-1], R[-1]), (), d, 1e-6))
            # the same with an explicit nodelist in another order (the order of the per-node output only): still exact
            if n >= 3 and (len(I0) + len(R0)) % 2 == 1:
                nl = list(reversed(nodes)) if len(I0) == 1 else nodes[1:] + nodes[:1]
                try:
                    o2 = EoN.SIR_pair_based_pure_IC(G, tau, gamma, list(I0), initial_recovereds=(list(R0) if R0 else None), nodelist=nl,
                                                    tmin=0, tmax=spec["tmax"], tcount=spec["tcount"], transmission_weight=tw, recovery_weight=rw)
                    d2 = maxdev(o2[1:4], (S, I, R))
                except Exception as e:
                    A.add(V("C08", "SIR_pair_based_pure_IC", "tree:" + mode + "+nodelist", "exception", "%s, nodelist=%r raised %s: %s" % (tag, nl, type(e).__name__, str(e)[:100]))); continue
                A.evals += 1
                if not np.isfinite(d2) or d2 > 1e-6:
                    A.add(V("C08", "SIR_pair_based_pure_IC", "tree:" + mode + "+nodelist", "not_exact_on_tree", "%s, nodelist=%r: differs from the master equation by %.3g" % (tag, nl, d2), (), d2, 1e-6))
        A.execs = A.evals
        A.sample = {"spec": spec}
        return A.result(props)
    if kind == "final_size":
        Nk = spec["Nk"]; N = float(sum(Nk))
        Pk, psi, psiP, psiDP = pgf_from_hist(Nk)
        for rho in spec["rhos"]:
            for (tau, gamma) in spec["rates"]:
                A.evals += 1
                tag = "degree histogram %r rho=%g tau=%g gamma=%g" % (Nk, rho, tau, gamma)
                try:
                    t, S, I, R = EoN.EBCM_uniform_introduction(N, psi, psiP, tau, gamma, rho, tmax=spec["tmax"], tcount=201)
                    ar = EoN.Attack_rate_cts_time(Pk, tau, gamma, rho=rho, number_its=spec.get("its", 400))
                except Exception as e:
                    A.add(V("C08", "Attack_rate_cts_time", "histogram", "exception", "%s raised %s: %s" % (tag, type(e).__name__, str(e)[:100]))); continue
                A.states.add((tuple(Nk), rho, tau, gamma)); A.nontrivial.add((tuple(Nk), rho, tau, gamma)); A.trans.add(("cts", tuple(Nk), rho, tau, gamma))
                resid = I[-1] / N
                if resid < 1e-9:
                    d = abs(ar - R[-1] / N)
                    A.max["max_dev_attack_rate_cts"] = max(A.max.get("max_dev_attack_rate_cts", 0.0), d)
                    if d > 1e-6:
                        A.add(V("C08", "Attack_rate_cts_time", "histogram", "final_size", "%s: Attack_rate_cts_time=%.9f, EBCM R(inf)/N=%.9f" % (tag, ar, R[-1] / N), (), ar, R[-1] / N))
                else:
                    A.count["not_converged_skipped"] = A.count.get("not_converged_skipped", 0) + 1
                # discrete
                p = tau / (tau + gamma) if tau + gamma > 0 else 0.5
                try:
                    td, Sd, Id, Rd = EoN.EBCM_discrete_uniform_introduction(N, psi, psiP, p, rho, tmax=spec.get("dsteps", 300))
                    ard = EoN.Attack_rate_discrete(Pk, p, rho=rho, number_its=spec.get("its", 400))
                except Exception as e:
                    A.add(V("C08", "Attack_rate_discrete", "histogram", "exception", "%s raised %s: %s" % (tag, type(e).__name__, str(e)[:100]))); continue
                A.trans.add(("disc", tuple(Nk), rho, p))
                rec = float(np.max(np.abs(Rd[1:] - (Rd[:-1] + Id[:-1]))))
                if rec > 1e-9 * N:
                    A.add(V("C08", "EBCM_discrete", "histogram", "recursion", "%s p=%g: R(t+1) != R(t)+I(t), max deviation %.3g" % (tag, p, rec)))
                if Id[-1] / N < 1e-9:
                    d = abs(ard - Rd[-1] / N)
                    A.max["max_dev_attack_rate_discrete"] = max(A.max.get("max_dev_attack_rate_discrete", 0.0), d)
                    if d > 1e-6:
                        A.add(V("C08", "Attack_rate_discrete", "histogram", "final_size", "%s p=%g: Attack_rate_discrete=%.9f, EBCM_discrete R(inf)/N=%.9f" % (tag, p, ard, Rd[-1] / N), (), ard, Rd[-1] / N))
                A.outcomes.add(hsh((round(ar, 6), round(ard, 6))))
        # general initial conditions: degree-dependent Sk0 and explicit phiS0 / phiR0 (edges to initially recovered nodes)
        ks = [k for k in range(len(Nk)) if Nk[k]]
        for vi, (sk, phiS0, phiR0) in enumerate(spec.get("general_ics", [])):
            Sk0 = {k: sk[k % len(sk)] for k in ks}
            def gpsi(x, Sk0=Sk0): return sum(Pk[k] * Sk0[k] * x ** k for k in ks)
            def gpsiP(x, Sk0=Sk0): return sum(k * Pk[k] * Sk0[k] * x ** (k - 1) for k in ks if k)
            if gpsiP(1.0) <= 0:
                continue
            kav = sum(k * Pk[k] for k in ks)
            for (tau, gamma) in spec["rates"]:
                A.evals += 1
                tag = "degree histogram %r Sk0=%r phiS0=%r phiR0=%r tau=%g gamma=%g" % (Nk, Sk0, phiS0, phiR0, tau, gamma)
                try:
                    ar = EoN.Attack_rate_cts_time(Pk, tau, gamma, Sk0=dict(Sk0), phiS0=phiS0, phiR0=phiR0, number_its=spec.get("its", 400))
                    ph = phiS0 if phiS0 is not None else gpsiP(1.0) / kav
                    t, S, I, R = EoN.EBCM(N, gpsi, gpsiP, tau, gamma, ph, phiR0=phiR0, R0=0, tmax=spec["tmax"], tcount=201)
                except Exception as e:
                    A.add(V("C08", "Attack_rate_cts_time", "histogram+general_ic", "exception", "%s raised %s: %s" % (tag, type(e).__name__, str(e)[:100]))); continue
                A.trans.add(("cts-gen", tuple(Nk), vi, tau, gamma))
                if I[-1] / N < 1e-9 and abs(I[-1] - I[-2]) / N < 1e-10:
                    d = abs(ar - R[-1] / N)
                    A.max["max_dev_attack_rate_cts_general_ic"] = max(A.max.get("max_dev_attack_rate_cts_general_ic", 0.0), d)
                    A.count["general_ic_compared"] = A.count.get("general_ic_compared", 0) + 1
                    if d > 1e-6:
                        A.add(V("C08", "Attack_rate_cts_time", "histogram+general_ic", "final_size", "%s: Attack_rate_cts_time=%.9f, EBCM R(inf)/N=%.9f" % (tag, ar, R[-1] / N), (), ar, R[-1] / N))
                else:
                    A.count["not_converged_skipped"] = A.count.get("not_converged_skipped", 0) + 1
                A.outcomes.add(hsh(("gen", round(ar, 6))))
                # the discrete-time sibling with the same general initial condition
                pp = tau / (tau + gamma)
                A.evals += 1
                try:
                    ardg = EoN.Attack_rate_discrete(Pk, pp, Sk0=dict(Sk0), phiS0=phiS0, phiR0=phiR0, number_its=spec.get("its", 400))
                    td, Sd, Id, Rd = EoN.EBCM_discrete(N, gpsi, gpsiP, pp, ph, phiR0=phiR0, R0=0, tmax=spec.get("dsteps", 300))
                except Exception as e:
                    A.add(V("C08", "Attack_rate_discrete", "histogram+general_ic", "exception", "%s p=%g raised %s: %s" % (tag, pp, type(e).__name__, str(e)[:100]))); continue
                A.trans.add(("disc-gen", tuple(Nk), vi, pp))
                if Id[-1] / N < 1e-9:
                    d = abs(ardg - Rd[-1] / N)
                    A.max["max_dev_attack_rate_discrete_general_ic"] = max(A.max.get("max_dev_attack_rate_discrete_general_ic", 0.0), d)
                    A.count["general_ic_compared_discrete"] = A.count.get("general_ic_compared_discrete", 0) + 1
                    if d > 1e-6:
                        A.add(V("C08", "Attack_rate_discrete", "histogram+general_ic", "final_size", "%s p=%g: Attack_rate_discrete=%.9f, EBCM_discrete R(inf)/N=%.9f" % (tag, pp, ardg, Rd[-1] / N), (), ardg, Rd[-1] / N))
                else:
                    A.count["not_converged_skipped"] = A.count.get("not_converged_skipped", 0) + 1
        A.execs = A.evals
        A.sample = {"spec": spec}
        return A.result(props)
    if kind == "limits":
        G = gr.mk(spec["n"], [tuple(e) for e in spec["edges"]]); N = float(G.order())
        ic = tuple(spec["ic"]) if spec["ic"][0] != "sets" else ("sets", list(spec["ic"][1]), list(spec["ic"][2]))
        from .fam_analytic import degeneracy
        if degeneracy(G, ic, "SIR") not in ("generic", "regular"):
            # singular closures (0/0): outside the limiting-case relations, reported by C06
            A.evals = 1; A.execs = 1; A.states.add("degenerate"); A.trans.add("degenerate")
            A.sample = {"spec": spec, "skipped": "degenerate request"}
            return A.result(props)
        for grid in ((0, 3, 7), (1.5, 4.5, 7)):
            times = np.linspace(*grid)
            gamma = 0.7
            # tau = 0: I(t) = I(0) exp(-gamma t), S constant
            for name in cat.all_names():
                inf = cat.info(name)
                if inf["discrete"] or not cat.supports(name, ic):
                    continue
                A.evals += 1
                tag = "%s(%r, tau=0, gamma=%g) on n=%d edges=%r" % (name, ic, gamma, spec["n"], spec["edges"])
                try:
                    o = cat.call(EoN, name, G, ic, 0.0, gamma, grid, False)
                except Exception as e:
                    A.add(V("C08", name, "tau=0", "exception", "%s raised %s: %s" % (tag, type(e).__name__, str(e)[:100]))); continue
                S, I = np.asarray(o[1], dtype=float), np.asarray(o[2], dtype=float)
                A.states.add((name, "tau0")); A.trans.add((name, "tau0", hsh(spec))); A.nontrivial.add((name, "tau0", hsh(spec)))
                if not (np.all(np.isfinite(S)) and np.all(np.isfinite(I))):
                    continue   # degenerate closures: reported by C06
                d = float(np.max(np.abs(I - I[0] * np.exp(-gamma * (times - times[0]))))) / N
                ds = float(np.max(np.abs(S - S[0]))) / N if inf["model"] == "SIR" else 0.0   # (SIS: S = N - I rises as I decays)
                A.max["max_rel_dev_tau0"] = max(A.max.get("max_rel_dev_tau0", 0.0), d, ds)
                if d > 1e-6 or ds > 1e-6:
                    A.add(V("C08", name, "tau=0", "not_pure_recovery", "%s: I deviates from I(0)exp(-gamma t) by %.3g N, S moves by %.3g N" % (tag, d, ds), (), d, 0.0))
            # gamma = 0: SIS and SIR versions give the same S(t)
            tau = 0.6
            for base in ("homogeneous_meanfield_from_graph", "homogeneous_pairwise_from_graph", "heterogeneous_meanfield_from_graph",
                         "heterogeneous_pairwise_from_graph", "compact_pairwise_from_graph", "effective_degree_from_graph",
                         "compact_effective_degree_from_graph", "individual_based", "pair_based", "individual_based_pure_IC", "pair_based_pure_IC"):
                a, b = "SIS_" + base, "SIR_" + base
                ic2 = ic if ic[0] != "sets" else ("sets", ic[1], [])
                if not (cat.supports(a, ic2) and cat.supports(b, ic2)):
                    continue
                A.evals += 1
                tag = "%s vs %s (%r, tau=%g, gamma=0) on n=%d edges=%r" % (a, b, ic2, tau, spec["n"], spec["edges"])
                try:
                    oa = cat.call(EoN, a, G, ic2, tau, 0.0, grid, False); ob = cat.call(EoN, b, G, ic2, tau, 0.0, grid, False)
                except Exception as e:
                    A.add(V("C08", a, "gamma=0", "exception", "%s raised %s: %s" % (tag, type(e).__name__, str(e)[:100]))); continue
                Sa, Sb = np.asarray(oa[1], dtype=float), np.asarray(ob[1], dtype=float)
                A.states.add((base, "gamma0")); A.trans.add((base, "gamma0", hsh(spec))); A.nontrivial.add((base, "gamma0", hsh(spec)))
                if not (np.all(np.isfinite(Sa)) and np.all(np.isfinite(Sb))):
                    continue
                d = float(np.max(np.abs(Sa - Sb))) / N
                A.max["max_rel_dev_gamma0"] = max(A.max.get("max_rel_dev_gamma0", 0.0), d)
                if d > 2e-5:
                    A.add(V("C08", a, "gamma=0", "SIS_SIR_differ", "%s: S(t) differs by %.3g N" % (tag, d), (), d, 2e-5))
        A.execs = A.evals
        A.sample = {"spec": spec}
        return A.result(props)
    raise ValueError(kind)


def specs(tier):
    out = []
    thorough = tier != "quick"
    nmax = 6 if thorough else 5
    for n in range(2, nmax + 1):
        for es in gr.trees_cached(n):
            nodes = list(range(n))
            seeds = [((u,), ()) for u in nodes] + [((u, v), ()) for u, v in itertools.combinations(nodes, 2)]
            seeds += [((u,), (r,)) for u in nodes for r in nodes if r != u][: (n * (n - 1) if thorough else n)]
            for mode in ("none", "edge_weight", "edge_custom", "node", "both"):
                if n >= 6 and mode in ("edge_custom", "node"):
                    continue
                out.append(dict(kind="tree", n=n, edges=es, weights=mode, tau=0.8, gamma=0.7, tmax=3.0, tcount=7,
                                seeds=[[list(a), list(b)] for a, b in seeds]))
    if thorough:
        for es in gr.trees_cached(7):
            out.append(dict(kind="tree", n=7, edges=es, weights="both", tau=0.8, gamma=0.7, tmax=2.0, tcount=3,
                            seeds=[[[0], []], [[3], [1]], [[0, 6], []]]))
    cm, km = (3, 4) if thorough else (2, 3)
    for Nk in itertools.product(range(cm + 1), repeat=km + 1):
        if sum(Nk[1:]) == 0:
            continue
        out.append(dict(kind="final_size", Nk=list(Nk), rhos=[0.05, 0.2, 0.5], rates=[(0.3, 0.7), (1.1, 1.0), (2.0, 0.5)], tmax=400.0,
                        general_ics=[[[0.7], None, 0.15], [[0.95, 0.6, 0.8], 0.6, 0.2], [[0.9, 0.5], 0.45, 0.0]] + ([[[1.0, 0.4], 0.3, 0.5]] if thorough else [])))
    gs = [(n, es) for n, es in gr.small_graphs(3) if es] + [(4, es) for es in gr.shapes(4) if es]
    if thorough:
        gs += [(5, es) for es in gr.shapes(5) if es]
    for n, es in gs:
        ics = [["rho", 0.2], ["default"], ["sets", [0], []]] + ([["sets", [0, n - 1], []]] if n > 2 else [])
        for ic in ics:
            out.append(dict(kind="limits", n=n, edges=es, ic=ic))
    return out
