"""Monitors that ride on every execution (DESIGN §1.6): C04 C05 C09 C10 C19.

Each monitor returns a list of (symptom, message).  The caller turns them into violations
with a finding key  <prop>|<entry point>|<input class>|<symptom>.
"""
import itertools, copy
import numpy as np
from collections import defaultdict

INF = float("inf")


def arrays_of(out):
    """(t, {status: array}) from a tuple/list of arrays in the documented order."""
    return [np.asarray(a) for a in out]


def hist_of(si, nodes):
    return {v: (list(si.node_history(v)[0]), list(si.node_history(v)[1])) for v in nodes}


def status_at(h, t):
    ts, ss = h
    cur = None
    for a, s in zip(ts, ss):
        if a <= t:
            cur = s
    return cur


def summary_from_hist(hist, statuses):
    """Population counts from per-node histories: one row per distinct time."""
    times = sorted({t for ts, ss in hist.values() for t in ts})
    rows = []
    for t in times:
        c = {s: 0 for s in statuses}
        for h in hist.values():
            s = status_at(h, t)
            if s in c:
                c[s] += 1
        rows.append(c)
    return times, rows


def collapse_ties(t, cols):
    """Keep, for each distinct time, the last row."""
    keep = [i for i in range(len(t)) if i + 1 == len(t) or t[i + 1] != t[i]]
    return [t[i] for i in keep], [[c[i] for i in keep] for c in cols]


# ------------------------------------------------------------------------------------------
# C04
# ------------------------------------------------------------------------------------------

def c04(arrs, N, tmin, tmax, model, discrete=False, moves=None, must_die_out=False, names=None, every_step=True):
    """arrs = [t, X1, X2, ...]; model in {'SIR','SIS','spec'}; moves: set of (from_idx,to_idx)
    legal single-node moves between the columns (continuous time)."""
    bad = []
    t = np.asarray(arrs[0]); cols = [np.asarray(c) for c in arrs[1:]]
    n = len(t)
    if any(len(c) != n for c in cols):
        return [("lengths", "arrays of unequal length %s" % [len(a) for a in arrs])]
    if n == 0:
        return [("empty", "empty output")]
    if t[0] != tmin:
        bad.append(("t0", "first time %r != tmin %r" % (t[0], tmin)))
    if np.any(np.diff(t) < 0):
        bad.append(("order", "times decrease: %s" % t.tolist()))
    if discrete:
        if every_step and not np.all(np.abs(np.diff(t) - 1) < 1e-9):      # (tmin + k by repeated addition: one ulp off for non-dyadic tmin)
            bad.append(("step", "discrete times do not advance by one: %s" % t.tolist()))
        gap = tmax - tmin
        if gap != INF and float(gap).is_integer() and np.any(t > tmax):
            bad.append(("tmax", "time beyond tmax=%r: %s" % (tmax, t.tolist())))
    else:
        if np.any(t[1:] >= tmax) or (t[0] >= tmax and n > 1):
            bad.append(("tmax", "event reported at or after tmax=%r: %s" % (tmax, t.tolist())))
    for c in cols:
        if c.dtype.kind not in "iu" and not np.all(c == np.round(c)):
            bad.append(("integer", "non-integer counts %s" % c.tolist())); break
    if any(np.any(c < 0) for c in cols):
        bad.append(("negative", "negative count %s" % [c.tolist() for c in cols]))
    tot = sum(cols)
    if np.any(tot != N):
        bad.append(("conservation", "counts do not sum to N=%d: %s" % (N, [c.tolist() for c in cols])))
    if model == "SIR":
        S, I, R = cols
        if np.any(np.diff(S) > 0):
            bad.append(("S_up", "S increases %s" % S.tolist()))
        if np.any(np.diff(R) < 0):
            bad.append(("R_down", "R decreases %s" % R.tolist()))
    if not discrete and moves is not None and n > 1:
        D = np.stack([np.diff(c) for c in cols], axis=1)
        for k, row in enumerate(D):
            minus = [i for i, x in enumerate(row) if x == -1]
            plus = [i for i, x in enumerate(row) if x == 1]
            zero_ok = (not minus and not plus and all(x == 0 for x in row) and ("same", "same") in moves)
            if zero_ok:
                continue
            if len(minus) != 1 or len(plus) != 1 or sum(abs(x) for x in row) != 2 \
                    or (minus[0], plus[0]) not in moves:
                bad.append(("one_move", "rows %d->%d differ by %s, not one legal move" % (k, k + 1, row.tolist())))
                break
    if must_die_out:
        Icol = cols[1]
        if Icol[-1] != 0:
            bad.append(("dies_out", "unbounded horizon, positive recovery rate, but final I=%r" % Icol[-1]))
    return bad


SIR_MOVES = {(0, 1), (1, 2)}
SIS_MOVES = {(0, 1), (1, 0)}


# ------------------------------------------------------------------------------------------
# C05
# ------------------------------------------------------------------------------------------

def c05_arrays(arrs, N, tmin, I0, R0, sir, G=None):
    """G given: additionally the count-level consequence of "initially recovered nodes are never infected":
    the number of nodes ever infected is bounded by what the seeds can reach without passing through R0."""
    bad = []
    if G is not None and len(arrs) >= 2 and len(arrs[1]):
        blocked = set(R0)
        seen = set(v for v in I0 if v not in blocked); todo = list(seen)
        while todo:
            u = todo.pop()
            for w in G.neighbors(u):
                if w not in seen and w not in blocked:
                    seen.add(w); todo.append(w)
        smin = float(np.min(np.asarray(arrs[1])))
        if smin < N - len(blocked) - len(seen):
            bad.append(("too_many_infections", "S falls to %r: more nodes get infected than the %d the seeds can reach without the initially recovered nodes %r" % (smin, len(seen), sorted(blocked, key=repr))))
    want = [tmin, N - len(I0) - len(R0), len(I0)] + ([len(R0)] if sir else [])
    got = [np.asarray(a)[0] if len(a) else None for a in arrs]
    if len(got) != len(want) or any(g is None or g != w for g, w in zip(got, want)):
        names = ["t", "S", "I", "R"]
        diff = [names[i] for i, (g, w) in enumerate(zip(got, want)) if g is None or g != w]
        bad.append(("row0." + "".join(diff), "row 0 is %s, request means %s" % ([None if g is None else float(g) for g in got], want)))
    return bad


def c05_full(si, nodes, tmin, I0, R0, sir, busy_at_tmin=()):
    """busy_at_tmin: nodes to which something else happens at tmin (tie executions): skipped."""
    bad = []
    try:
        st = si.get_statuses(time=tmin)
    except Exception as e:
        return [("get_statuses", "get_statuses(time=tmin) raised %r" % (e,))]
    for v in nodes:
        if v in busy_at_tmin:
            continue
        want = "I" if v in I0 else ("R" if v in R0 else "S")
        if st.get(v) != want:
            bad.append(("status_tmin", "node %r is %r at tmin, requested %r" % (v, st.get(v), want)))
            break
        ts, ss = si.node_history(v)
        if not ts or ts[0] != tmin or ss[0] != want:
            bad.append(("history0", "history of %r starts %r, requested (%r,%r)" % (v, (list(ts)[:2], list(ss)[:2]), tmin, want)))
            break
    for v in R0:
        ts, ss = si.node_history(v)
        if "I" in list(ss) or len(ts) != 1:
            bad.append(("R0_changes", "initially recovered node %r has history %r" % (v, (list(ts), list(ss)))))
            break
    tr = getattr(si, "_transmissions_", None)
    if tr is not None:
        for (t, u, v) in tr:
            if v in R0:
                bad.append(("R0_infected", "initially recovered node %r is a transmission target %r" % (v, (t, u, v))))
                break
    return bad


# ------------------------------------------------------------------------------------------
# C09
# ------------------------------------------------------------------------------------------

def c09(si, G, tmin, I0, model, discrete=False, ties=False):
    """model 'SIR' or 'SIS'.  Statuses 'S','I'(,'R')."""
    bad = []
    try:
        tr = list(si.transmissions())
    except Exception as e:
        return [("absent", "full data exposes no transmission list: %r" % (e,))]
    nodes = list(G.nodes())
    hist = hist_of(si, nodes)
    ts_ = [x[0] for x in tr]
    if any(b < a for a, b in zip(ts_, ts_[1:])):
        bad.append(("order", "transmission list not time-ordered %s" % ts_))
    roots = [v for (t, u, v) in tr if u is None]
    if sorted(map(repr, roots)) != sorted(map(repr, I0)):
        bad.append(("roots", "source-less entries %r != initially infected %r" % (roots, list(I0))))
    t0 = tmin - 1 if discrete else tmin
    for (t, u, v) in tr:
        if u is None:
            if t != t0:
                bad.append(("root_time", "source-less entry dated %r (expected %r)" % (t, t0)))
            continue
        if not G.has_edge(u, v):
            bad.append(("edge", "transmission %r not along an edge" % ((t, u, v),))); break
        tv = t + 1 if discrete else t
        # target changes to I at tv
        hts, hss = hist[v]
        k = [i for i, (a, s) in enumerate(zip(hts, hss)) if a == tv and s == "I"]
        if not k and ties and any(a == tv for a in hts):
            continue   # infected and recovered at the same instant: the history keeps only the last entry
        if not k:
            bad.append(("no_change", "transmission %r but target history %r has no infection at %r" % ((t, u, v), hist[v], tv))); break
        i = k[0]
        prev = hss[i - 1] if i > 0 else None
        if prev != "S" and not ties:
            bad.append(("target_not_S", "transmission %r: target was %r before" % ((t, u, v), prev))); break
        su = status_at(hist[u], t)
        if su != "I":
            # under ties the source may have been infected and recovered at the same instant
            if not (ties and any(a == t for a in hist[u][0])):
                bad.append(("source_not_I", "transmission %r: source is %r at that time (history %r)" % ((t, u, v), su, hist[u]))); break
    # completeness: one sourced entry per infection after the start
    ninf = 0
    for v in nodes:
        hts, hss = hist[v]
        for i, (a, s) in enumerate(zip(hts, hss)):
            if s == "I" and not (i == 0):
                ninf += 1
    # under ties _transform_to_node_history_ may drop an initial 'S' entry for a node infected at tmin
    sourced = [x for x in tr if x[1] is not None]
    if not ties and ninf != len(sourced):
        bad.append(("count", "%d infections in node histories but %d sourced transmission entries" % (ninf, len(sourced))))
    # transmission_tree() carries exactly the sourced entries (as a multi-digraph with the times)
    try:
        T = si.transmission_tree()
        got = sorted(((repr(u), repr(v), d.get("time")) for u, v, d in T.edges(data=True)), key=repr)
        want = sorted(((repr(u), repr(v), t) for (t, u, v) in tr if u is not None), key=repr)
        if got != want:
            bad.append(("tree_edges", "transmission_tree() edges %r differ from the sourced transmissions %r" % (got[:6], want[:6])))
    except Exception as e:
        bad.append(("tree_exc", "transmission_tree raised %r" % (e,)))
    if model == "SIR":
        indeg = defaultdict(int)
        for (t, u, v) in tr:
            indeg[v] += 1
        if any(c > 1 for c in indeg.values()):
            bad.append(("forest", "a node is infected more than once in an SIR run: %r" % tr))
        try:
            T = si.transmission_tree()
            if any(d > 1 for _, d in T.in_degree()):
                bad.append(("forest", "transmission_tree has in-degree > 1"))
            import networkx as nx
            if T.number_of_nodes() and not nx.is_forest(nx.Graph(T)) and len(tr) > 0:
                bad.append(("forest", "transmission_tree is not a forest"))
            for r in T.nodes():
                if T.in_degree(r) == 0 and r not in I0:
                    bad.append(("forest_root", "tree root %r is not initially infected" % (r,)))
        except Exception as e:
            bad.append(("tree_exc", "transmission_tree raised %r" % (e,)))
    return bad


# ------------------------------------------------------------------------------------------
# C10
# ------------------------------------------------------------------------------------------

def c10(si, arrs, G, tmin, statuses, legal, ties=False, subsets_max=4, query_extra=(), stepwise=False):
    """si: full-data object; arrs: [t, cols in order of `statuses`] from the other return mode
    under the same choices (or None).  legal: set of (old,new) status moves."""
    bad = []
    nodes = list(G.nodes())
    hist = hist_of(si, nodes)
    # histories well formed
    for v in nodes:
        ts, ss = hist[v]
        if len(ts) != len(ss) or not ts:
            bad.append(("hist_shape", "history of %r is %r" % (v, hist[v]))); break
        if ts[0] != tmin:
            bad.append(("hist_start", "history of %r starts at %r, not tmin=%r: %r" % (v, ts[0], tmin, hist[v]))); break
        if any(b < a for a, b in zip(ts, ts[1:])):
            bad.append(("hist_order", "history of %r not time-ordered: %r" % (v, hist[v]))); break
        for a, b in zip(ss, ss[1:]):
            if (a, b) not in legal:
                bad.append(("hist_move", "history of %r makes illegal move %r->%r: %r" % (v, a, b, hist[v]))); break
        if bad:
            break
    if bad:
        return bad
    times, rows = summary_from_hist(hist, statuses)
    # summary() against histories
    try:
        st, sD = si.summary()
        st = list(np.asarray(st).tolist())
        if st != times:
            bad.append(("summary_t", "summary() times %s != history times %s" % (st, times)))
        else:
            for s in statuses:
                got = list(np.asarray(sD[s]).tolist())
                want = [r[s] for r in rows]
                if got != want:
                    bad.append(("summary_" + str(s), "summary()[%r]=%s, histories give %s" % (s, got, want))); break
        if list(np.asarray(si.t()).tolist()) != st:
            bad.append(("t()", "t() differs from summary()"))
        for s, name in (("S", "S"), ("I", "I"), ("R", "R")):
            if s in statuses and hasattr(si, name):
                if list(np.asarray(getattr(si, name)()).tolist()) != list(np.asarray(sD[s]).tolist()):
                    bad.append((name + "()", "%s() differs from summary()" % name))
    except Exception as e:
        bad.append(("summary_exc", "summary()/t()/S() raised %r" % (e,)))
    # arrays of the other return mode
    if arrs is not None and not bad:
        at = list(np.asarray(arrs[0]).tolist()); acols = [list(np.asarray(c).tolist()) for c in arrs[1:]]
        ct, ccols = collapse_ties(at, acols)
        want_cols = [[r[s] for r in rows] for s in statuses]
        if stepwise:
            # discrete time: the arrays have one row per step, the summary one per change; compare as step functions
            def at(ts, cols, q):
                k = max(i for i, a in enumerate(ts) if a <= q)
                return [c[k] for c in cols]
            grid = sorted(set(ct) | set(times))
            same = all(at(ct, ccols, q) == at(times, want_cols, q) for q in grid) and set(times) <= set(ct)
        else:
            same = (ct == times and ccols == want_cols)
        if not same:
            bad.append(("arrays", "arrays (t=%s, %s) differ from the summary of node histories (t=%s, %s)"
                        % (ct, ccols, times, want_cols)))
    # subsets
    if len(nodes) <= subsets_max and not bad:
        for k in range(1, len(nodes) + 1):
            for sub in itertools.combinations(nodes, k):
                try:
                    t2, D2 = si.summary(list(sub))
                except Exception as e:
                    bad.append(("subset_exc", "summary(%r) raised %r" % (list(sub), e))); break
                # asking for a subset does not change what the object says about the whole population afterwards
                try:
                    t3, D3 = si.summary()
                    if list(np.asarray(t3).tolist()) != times or any(list(np.asarray(D3[s]).tolist()) != [r[s] for r in rows] for s in statuses) \
                            or list(np.asarray(si.t()).tolist()) != times:
                        bad.append(("reread_summary", "after summary(%r) the object's summary()/t() for the whole population changed: t=%s %s, before t=%s %s"
                                    % (list(sub), list(np.asarray(t3).tolist()), {s: list(np.asarray(D3[s]).tolist()) for s in statuses}, times, rows)))
                        break
                except Exception as e:
                    bad.append(("reread_exc", "summary() after summary(%r) raised %r" % (list(sub), e))); break
                ht = {v: hist[v] for v in sub}
                tt, rr = summary_from_hist(ht, statuses)
                if list(np.asarray(t2).tolist()) != tt or any(
                        list(np.asarray(D2[s]).tolist()) != [r[s] for r in rr] for s in statuses):
                    bad.append(("subset", "summary(%r) = (%s,%s) but direct count gives (%s,%s)" % (
                        list(sub), list(np.asarray(t2).tolist()), {s: list(np.asarray(D2[s]).tolist()) for s in statuses}, tt, rr)))
                    break
            if bad:
                break
    # status queries
    if not bad:
        qs = set(times)
        for a, b in zip(times, times[1:]):
            qs.add((a + b) / 2.0)
        qs.add(times[-1] + 1.0)
        qs.update(query_extra)
        for q in sorted(qs):
            if q < tmin:
                continue
            try:
                gs = si.get_statuses(time=q)
            except Exception as e:
                bad.append(("query_exc", "get_statuses(time=%r) raised %r" % (q, e))); break
            for v in nodes:
                want = status_at(hist[v], q)
                if gs.get(v) != want or si.node_status(v, q) != want:
                    bad.append(("query", "status of %r at %r: get_statuses %r node_status %r, history says %r"
                                % (v, q, gs.get(v), si.node_status(v, q), want))); break
            if bad:
                break
            # an explicit node subset must give exactly those nodes, with the same answers
            sub = nodes[::2]
            try:
                gsub = si.get_statuses(nodelist=list(sub), time=q)
                if set(gsub) != set(sub) or any(gsub[v] != status_at(hist[v], q) for v in sub):
                    bad.append(("query_subset", "get_statuses(nodelist=%r, time=%r) = %r" % (list(sub), q, gsub))); break
            except Exception as e:
                bad.append(("query_exc", "get_statuses(nodelist=%r, time=%r) raised %r" % (list(sub), q, e))); break
    # reading the object does not change it: every accessor gives the same answer the second time
    if not bad:
        try:
            if hist_of(si, nodes) != hist:
                bad.append(("reread_hist", "node histories read differently after the queries: %r then %r" % (hist, hist_of(si, nodes))))
            st2, sD2 = si.summary()
            if list(np.asarray(st2).tolist()) != times or any(list(np.asarray(sD2[s]).tolist()) != [r[s] for r in rows] for s in statuses):
                bad.append(("reread_summary", "summary() after subset summaries/queries gives t=%s %s, first answer t=%s %s"
                            % (list(np.asarray(st2).tolist()), {s: list(np.asarray(sD2[s]).tolist()) for s in statuses}, times, rows)))
            if list(np.asarray(si.t()).tolist()) != times:
                bad.append(("reread_t", "t() after the queries gives %s, first %s" % (list(np.asarray(si.t()).tolist()), times)))
            try:
                a = list(si.transmissions()); b = list(si.transmissions())
            except Exception:      # (objects created without transmission records say so)
                a = b = None
            if a != b:
                    bad.append(("reread_transmissions", "transmissions() read twice: %r then %r" % (a, b)))
        except Exception as e:
            bad.append(("reread_exc", "re-reading the object raised %r" % (e,)))
    return bad


# ------------------------------------------------------------------------------------------
# C19
# ------------------------------------------------------------------------------------------

def snap(x):
    """Deep, order-preserving snapshot of an argument object."""
    import networkx as nx
    if isinstance(x, (nx.Graph, nx.DiGraph)):
        return ("G", type(x).__name__, x.is_directed(),
                [(repr(n), snap(dict(d))) for n, d in x.nodes(data=True)],
                [(repr(u), repr(v), snap(dict(d))) for u, v, d in x.edges(data=True)],
                snap(dict(x.graph)))
    if isinstance(x, np.ndarray):
        return ("nd", x.shape, str(x.dtype), x.flags["C_CONTIGUOUS"], x.tolist())
    if isinstance(x, defaultdict):
        return ("dd", sorted((repr(k), snap(v)) for k, v in x.items()))
    if isinstance(x, dict):
        return ("dict", [(repr(k), snap(v)) for k, v in x.items()])
    if isinstance(x, (list, tuple)):
        return (type(x).__name__, [snap(v) for v in x])
    if isinstance(x, (set, frozenset)):
        return ("set", sorted(repr(v) for v in x))
    if isinstance(x, range):
        return ("range", x.start, x.stop, x.step)
    if callable(x):
        return ("fn", id(x))
    return ("v", repr(x))


def c19_compare(before, after, names):
    bad = []
    for n, b, a in zip(names, before, after):
        if b != a:
            if b[0] == "dd" and a[0] == "dd":
                # auto-vivified defaults of a defaultdict are not a visible change of the mapping
                db = dict(b[1]); da = dict(a[1])
                if all(da.get(k) == v for k, v in db.items()):
                    continue
            bad.append(("mutated." + n, "argument %s changed: before %s after %s" % (n, str(b)[:300], str(a)[:300])))
    return bad
