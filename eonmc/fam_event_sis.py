"""Driver family: event-driven SIS.

* fast_nonMarkov_SIS (C13): user duration / delay-list rules as lazily enumerated per-call
  tables, compared event by event with the plain semantics (sort all attempts and recoveries,
  apply in time order).
* fast_SIS (C02, event-driven part): exhaustive expovariate menus; a clock-discipline monitor
  replays the seam log (draws, queue pushes/pops) and checks P1-P5 of DESIGN §2/C02.
Riders: C04 C05 C09 C10 C19.
"""
import heapq, itertools
import numpy as np
from . import import_eon
from .core import explore, run_once, CapHit, HarnessError
from .common import V, Acc, hsh
from .ref import num, INF
from . import graphs as gr
from . import monitors as mon
from .fam_event_sir import build_graph, TA, RA, JA

BIG = 1e9


# ------------------------------------------------------------------------------------------
# plain reference semantics of SIS with arbitrary delays
# ------------------------------------------------------------------------------------------

def plain_sis(G, I0, tmin, tmax, recs):
    """recs: per infection event, in order: (node, duration, {nbr: [delays]}).  Returns
    (events, error) where events = [(time, 'inf'|'rec', source, node)] in time order."""
    status = {v: "S" for v in G}
    ev = []; c = 0; hist = []; k = 0
    for u in I0:
        heapq.heappush(ev, (tmin, c, "inf", None, u)); c += 1
    while ev:
        t, _, kind, src, v = heapq.heappop(ev)
        if t >= tmax:
            continue
        if kind == "rec":
            status[v] = "S"; hist.append((t, "rec", None, v))
        else:
            if status[v] != "S":
                continue
            status[v] = "I"; hist.append((t, "inf", src, v))
            if k >= len(recs):
                return None, ("fewer_consultations", "the rules were consulted for %d infections, the reference reaches infection #%d (node %r at %r)" % (len(recs), k + 1, v, t))
            u, d, dl = recs[k]; k += 1
            if u != v:
                return None, ("consultation_order", "rule consultation #%d was for node %r but the %d-th infection in time order is node %r" % (k, u, k, v))
            heapq.heappush(ev, (t + d, c, "rec", None, v)); c += 1
            for w in G.neighbors(v):
                for x in dl.get(w, []):
                    heapq.heappush(ev, (t + x, c, "inf", v, w)); c += 1
    if k != len(recs):
        return None, ("extra_consultations", "the rules were consulted for %d infections but only %d happen" % (len(recs), k))
    return hist, None


def observed_events(si, nodes):
    obs = []
    for t, u, v in si.transmissions():
        obs.append((t, "inf", u, v))
    for v in nodes:
        ts, ss = si.node_history(v)
        for t, s in list(zip(ts, ss))[1:]:
            if s == "S":
                obs.append((t, "rec", None, v))
    return sorted(obs, key=lambda e: (e[0], e[1], repr(e[2]), repr(e[3])))


def arrays_from_events(N, I0, tmin, events):
    S = N - len(I0); I = len(I0)
    rows = [(tmin, S, I)]
    for (t, kind, src, v) in events:
        if kind == "inf" and src is None:
            continue
        if kind == "inf":
            S -= 1; I += 1
        else:
            S += 1; I -= 1
        rows.append((t, S, I))
    return rows


def sis_riders(A, props, fn, cls, G, nodes, I0, tmin, tmax, out, arrs, full, pre, sim, recall, exp=None, gam_pos=False,
               out_of_contract=False):
    n = len(nodes)
    if "C04" in props:
        a = arrs if arrs is not None else [out.t(), out.S(), out.I()]
        for s, m in mon.c04(a, n, tmin, tmax, "SIS", moves=mon.SIS_MOVES, must_die_out=False):
            A.add(V("C04", fn, cls, s, m, pre))
    if "C05" in props:
        if not full:
            for s, m in mon.c05_arrays(arrs, n, tmin, I0, [], False, G=G):
                A.add(V("C05", fn, cls, s, m, pre))
        else:
            for s, m in mon.c05_full(out, nodes, tmin, I0, [], False):
                A.add(V("C05", fn, cls, s, m, pre))
    if "C09" in props and full:
        for s, m in mon.c09(out, G, tmin, I0, "SIS"):
            if out_of_contract and s == "source_not_I":
                # the user's rule listed a delay beyond the source's infectious period (outside the documented
                # contract "all delays are before recovery"): C13 defines what happens then, C09's "from an
                # infectious node" presupposes the contract
                continue
            A.add(V("C09", fn, cls, s, m, pre))
    if "C10" in props and full:
        r2 = run_once(sim, lambda orc: recall(orc, False), pre, exp=exp)
        if r2.chosen() != pre:
            A.add(V("C10", fn, cls, "draws_differ", "the two return modes consume different draws / consult the rules differently", pre))
        elif r2.exc is not None:
            A.add(V("C10", fn, cls, "exception", "array mode raised %r" % (r2.exc,), pre))
        else:
            for s, m in mon.c10(out, list(r2.out), G, tmin, ["S", "I"], {("S", "I"), ("I", "S")}):
                A.add(V("C10", fn, cls, s, m, pre))


# ------------------------------------------------------------------------------------------
# fast_nonMarkov_SIS
# ------------------------------------------------------------------------------------------

def run_nonmarkov_sis(spec, props=("C13",)):
    EoN, sim = import_eon()
    A = Acc()
    fn = "fast_nonMarkov_SIS"
    G = build_graph(spec)
    n = spec["n"]; nodes = list(range(n))
    I0 = list(spec["I0"])
    tmin = num(spec.get("tmin", 0)); tmax = num(spec.get("tmax", 6.0))
    DUR = spec.get("durations", [1.0, 2.5])
    base = spec.get("delays", [0.3, 0.8, 1.9])
    budget = spec.get("budget", 3)
    form = spec.get("form", "sep")
    full = bool(spec.get("full", True))
    cls = form + ("+directed" if spec.get("directed") else "")

    def lists(d):
        # [], [a], [a,b], [a,c]: a<b<c; c lies beyond the shorter duration (the property speaks of *any* listed
        # delay; the documented contract "before recovery" is not assumed) and c-a exceeds the shorter duration,
        # so a second attempt of one list can find the target susceptible again
        a, b, c = base[0], base[1], base[2]
        return [[], [a], [a, b], [a, c]]

    def call(orc, full_):
        log = orc.ctx.setdefault("log", [])
        cnt = orc.ctx.setdefault("cnt", [0])

        def rf(u):
            cnt[0] += 1
            j = cnt[0]
            if j <= budget:
                d = orc.pick("dur", DUR, info=("dur", u)) + 2.0 ** -(10 + j)
            else:
                d = BIG
            log.append(("dur", u, d))
            return d

        def tf(u, v, d):
            if d >= BIG:
                l = []
            else:
                l = [x + 2.0 ** -(20 + len(log)) for x in orc.pick("delays", lists(d), info=("delays", u, v))]
            log.append(("del", u, v, l))
            return l

        def joint(node, nbrs):
            d = rf(node)
            return {v: tf(node, v, d) for v in nbrs}, d
        kw = dict(initial_infecteds=list(I0), tmin=tmin, tmax=tmax, return_full_data=full_)
        bad = orc.ctx.setdefault("badargs", [])

        def tf_a(u, v, d, ta, tb):
            if (ta, tb) != TA:
                bad.append(("trans_time_fxn", (ta, tb), TA))
            return tf(u, v, d)

        def rf_a(u, ra):
            if (ra,) != RA:
                bad.append(("rec_time_fxn", (ra,), RA))
            return rf(u)

        def joint_a(node, nbrs, ja, jb, jc):
            if (ja, jb, jc) != JA:
                bad.append(("trans_and_rec_time_fxn", (ja, jb, jc), JA))
            return joint(node, nbrs)
        if form == "sep":
            return EoN.fast_nonMarkov_SIS(G, trans_time_fxn=tf, rec_time_fxn=rf, **kw)
        if form == "sep_args":
            return EoN.fast_nonMarkov_SIS(G, trans_time_fxn=tf_a, rec_time_fxn=rf_a, trans_time_args=TA, rec_time_args=RA, **kw)
        if form == "joint_args":
            return EoN.fast_nonMarkov_SIS(G, trans_and_rec_time_fxn=joint_a, trans_and_rec_time_args=JA, **kw)
        return EoN.fast_nonMarkov_SIS(G, trans_and_rec_time_fxn=joint, **kw)

    before = mon.snap(G)
    try:
        runs = list(explore(sim, lambda orc: call(orc, full), cap=spec.get("cap", 400000), stats=A.count))
    except CapHit as e:
        A.caps.append(str(e)); return A.result(props)
    A.execs = len(runs); A.selfchecks = A.count.pop("selfchecks", 0)
    if "C19" in props:
        for s, m in mon.c19_compare([before], [mon.snap(G)], ["G"]):
            A.add(V("C19", fn, cls, s, m))
    for r in runs:
        pre = r.chosen()
        if r.exc is not None:
            for p in ("C13", "C04"):
                if p in props:
                    A.add(V(p, fn, cls, "exception", "%s raised %r" % (fn, r.exc), pre))
            continue
        log = r.ctx.get("log", [])
        if r.ctx.get("badargs") and "C13" in props:
            w, got, want = r.ctx["badargs"][0]
            A.add(V("C13", fn, cls, "callback_args", "%s received the extra arguments %r, the caller supplied %r" % (w, got, want), pre))
        recs = []; i = 0
        while i < len(log):
            if log[i][0] != "dur":
                raise HarnessError("delay list requested before a duration")
            u = log[i][1]; d = log[i][2]; dl = {}; i += 1
            while i < len(log) and log[i][0] == "del":
                dl[log[i][2]] = log[i][3]; i += 1
            recs.append((u, d, dl))
        out = r.out
        arrs = None if full else list(out)
        A.outcomes.add(hsh(mon.hist_of(out, nodes) if full else [a.tolist() for a in arrs]))
        A.count["rows_checked"] = A.count.get("rows_checked", 0) + 1
        if len(recs) > len(I0):
            A.nontrivial.add(pre)
        A.states.add(hsh(log))
        if "C13" in props:
            hist, err = plain_sis(G, I0, tmin, tmax, recs)
            if err:
                A.add(V("C13", fn, cls, err[0], err[1], pre))
            else:
                A.trans.add(hsh(hist))
                want = sorted(hist, key=lambda e: (e[0], e[1], repr(e[2]), repr(e[3])))
                if full:
                    obs = observed_events(out, nodes)
                    if obs != want:
                        A.add(V("C13", fn, cls, "events", "history %r differs from the plain semantics %r (rules %r)" % (obs, want, recs), pre, obs, want))
                    else:
                        # the per-node histories say the same thing (every status change of every node, nothing else)
                        ref_h = {v: ([tmin], ["I" if v in I0 else "S"]) for v in nodes}
                        for (t_, kind, src, v) in sorted(hist, key=lambda e: e[0]):
                            if kind == "inf" and src is None:
                                continue
                            ref_h[v][0].append(t_); ref_h[v][1].append("I" if kind == "inf" else "S")
                        got_h = mon.hist_of(out, nodes)
                        for v in nodes:
                            g = (list(got_h[v][0]), list(got_h[v][1]))
                            if g != ref_h[v]:
                                A.add(V("C13", fn, cls, "node_history", "history of node %r is %r, the plain semantics give %r" % (v, g, ref_h[v]), pre, g, ref_h[v]))
                                break
                    # every node history must end consistent with the event list
                else:
                    rows = arrays_from_events(n, I0, tmin, sorted(hist, key=lambda e: e[0]))
                    got = list(zip(*[np.asarray(a).tolist() for a in arrs]))
                    if got != rows:
                        A.add(V("C13", fn, cls, "arrays", "arrays %r differ from the plain semantics %r" % (got, rows), pre, got, rows))
        ooc = any(x >= d for (u, d, dl) in recs for l in dl.values() for x in l)
        sis_riders(A, props, fn, cls, G, nodes, I0, tmin, tmax, out, arrs, full, pre, sim, call, out_of_contract=ooc)
    if runs:
        r = runs[len(runs) // 2]
        A.sample = {"spec": spec, "choices": list(r.chosen()), "rule_log": [list(map(repr, x)) for x in r.ctx.get("log", [])][:10]}
    return A.result(props)


# ------------------------------------------------------------------------------------------
# fast_SIS: clock-discipline monitor
# ------------------------------------------------------------------------------------------

def _who_sis(frame):
    name = frame.f_code.co_name
    loc = frame.f_locals
    if name == "_find_next_trans_SIS_Markov":
        return "T", (loc["source"], loc["target"]), loc["time"]
    if name == "_process_trans_SIS_Markov":
        return "R", loc["target"], loc["time"]
    raise HarnessError("expovariate called from unexpected place %s" % name)


def monitor_fast_sis(log, G, tau, gamma, wE, wN, I0, tmin, tmax):
    """Replay the seam log.  Returns (errors, events) with events the reconstructed history."""
    errs = []
    anchors_seen = []   # (trace index of the last draw, pair, anchor used) for every scheduled clock
    status = {v: "S" for v in G}
    until = {v: -INF for v in G}
    pending = {}
    lastcand = {}      # (u,v) -> most generous legitimate candidate of the last unpushed clock
    events = []
    TOL = 1e-9

    def ev_of(item):
        t, c, f, args = item
        nm = f.__name__
        if "trans" in nm:
            return ("T", t, (args[1], args[2]))
        if "rec" in nm:
            return ("R", t, args[0])
        raise HarnessError("unknown handler %s in the queue" % nm)

    def cover(now):
        for u in G:
            if status[u] != "I" or until[u] <= now:
                continue
            for v in G.neighbors(u):
                if (u, v) in pending:
                    continue
                if tau * wE(u, v) == 0:
                    continue
                rv = until[v] if status[v] == "I" else now
                if rv >= until[u]:
                    continue
                lc = lastcand.get((u, v))
                if lc is not None and lc >= min(until[u], tmax) - TOL:
                    continue
                errs.append(("no_clock", "at t=%r node %r is infectious until %r, neighbour %r can be susceptible from %r, but no transmission clock %r->%r is pending (last candidate %r)" % (now, u, until[u], v, rv, u, v, lc)))
                return

    # split the log into handler invocations
    i = 0; n = len(log)
    # initial pushes (before the first pop)
    while i < n and log[i][0] == "push":
        k, t, who = ev_of(log[i][1])
        if k != "T" or who[0] is not None or t != tmin:
            errs.append(("initial_push", "unexpected initial queue entry %r" % (log[i][1][:2],)))
        i += 1
    while i < n:
        e = log[i]
        if e[0] != "pop":
            raise HarnessError("seam log out of phase: %r" % (e[0],))
        k, now, who = ev_of(e[1])
        j = i + 1
        body = []
        while j < n and log[j][0] != "pop":
            body.append(log[j]); j += 1
        draws = [b for b in body if b[0] == "draw"]
        pushes = [ev_of(b[1]) for b in body if b[0] == "push"]
        infected_now = None
        if k == "R":
            u = who
            if abs(until[u] - now) > TOL:
                errs.append(("recovery_time", "recovery of %r fires at %r, its drawn infectious period ends at %r" % (u, now, until[u])))
            if status[u] != "I":
                errs.append(("recovery_of_S", "recovery event for %r which is not infectious" % (u,)))
            status[u] = "S"
            events.append((now, "rec", None, u))
            stale = [p for p in pending if p[0] == u]
            if stale:
                errs.append(("stale_clock", "transmission clock %r still pending when its source recovers at %r" % (stale[0], now)))
            if draws or pushes:
                errs.append(("recovery_side_effects", "recovery handler drew or scheduled something"))
        else:
            u, v = who
            if u is not None:
                if (u, v) not in pending or abs(pending[(u, v)] - now) > TOL:
                    errs.append(("pop_mismatch", "transmission %r->%r popped at %r but the pending clock was %r" % (u, v, now, pending.get((u, v)))))
                pending.pop((u, v), None)
                if status[u] != "I" or until[u] <= now:
                    errs.append(("dead_source", "transmission %r->%r at %r but the source is not infectious" % (u, v, now)))
            if status[v] == "S":
                status[v] = "I"; infected_now = v
                events.append((now, "inf", u, v))
                for w in G.neighbors(v):
                    lastcand.pop((v, w), None)
                rd = [d for d in draws if d[1] == "R"]
                want = gamma * wN(v)
                if want > 0:
                    if len(rd) != 1 or rd[0][2] != v or abs(rd[0][3] - want) > 1e-12:
                        errs.append(("recovery_draw", "infection of %r: recovery draws %r, expected exactly one of rate %r" % (v, [(d[2], d[3]) for d in rd], want)))
                    else:
                        until[v] = now + rd[0][4]
                else:
                    if rd:
                        errs.append(("recovery_draw", "recovery drawn for %r whose recovery rate is 0" % (v,)))
                    until[v] = INF
                rp = [p for p in pushes if p[0] == "R"]
                if until[v] < tmax:
                    if len(rp) != 1 or rp[0][2] != v or abs(rp[0][1] - until[v]) > TOL:
                        errs.append(("recovery_push", "infection of %r at %r: recovery scheduled %r, drawn end of period %r" % (v, now, rp, until[v])))
                elif rp:
                    errs.append(("recovery_push", "recovery of %r scheduled at %r >= tmax" % (v, rp[0][1])))
            elif any(d[1] == "R" for d in draws):
                errs.append(("recovery_draw", "recovery drawn although %r was not infected by this event" % (v,)))
            # transmission clocks (re)started in this handler
            tdraws = {}
            for d in draws:
                if d[1] == "T":
                    tdraws.setdefault(d[2], []).append(d)
            tpush = {}
            for p in pushes:
                if p[0] == "T":
                    if p[2] in tpush:
                        errs.append(("double_clock", "two transmission events scheduled for %r in one step" % (p[2],)))
                    tpush[p[2]] = p[1]
            for pair, ds in tdraws.items():
                a, b = pair
                want = tau * wE(a, b) if G.has_edge(a, b) else None
                if want is None or any(abs(d[3] - want) > 1e-12 for d in ds):
                    errs.append(("transmission_draw", "clock %r->%r drawn with rates %r, expected %r" % (a, b, [d[3] for d in ds], want)))
                if status[a] != "I":
                    errs.append(("clock_for_S", "clock %r->%r drawn although %r is not infectious" % (a, b, a)))
                x = ds[-1][4]
                rv = until[b] if (status[b] == "I" and until[b] > now) else now
                anchors = {now, rv}
                if pair in tpush:
                    T = tpush[pair]
                    if not any(abs(T - (A_ + x)) <= TOL for A_ in anchors):
                        errs.append(("anchor", "clock %r->%r scheduled at %r: last drawn value %r, legitimate anchors %r (now / end of the target's infectious period)" % (a, b, T, x, sorted(anchors))))
                    if ds[-1][6] is not None:
                        anchors_seen.append((ds[-1][6], pair, round(T - x, 9)))
                    if T < rv - TOL:
                        errs.append(("anchor", "clock %r->%r scheduled at %r while the target is infectious until %r" % (a, b, T, rv)))
                    if T >= until[a] - TOL and until[a] < INF:
                        errs.append(("late_clock", "clock %r->%r scheduled at %r, at or after the source's recovery %r" % (a, b, T, until[a])))
                else:
                    lastcand[pair] = max(anchors) + x
            for pair, T in tpush.items():
                if pair not in tdraws:
                    errs.append(("push_without_draw", "transmission %r scheduled at %r without a fresh exponential draw" % (pair, T)))
                if pair in pending:
                    errs.append(("double_clock", "second clock for %r scheduled at %r while one is pending at %r" % (pair, T, pending[pair])))
                pending[pair] = T
        cover(now)
        i = j
        if len(errs) > 3:
            break
    return errs, events, anchors_seen


def run_fast_sis(spec, props=("C02",)):
    EoN, sim = import_eon()
    A = Acc()
    fn = "fast_SIS"
    G = build_graph(spec)
    n = spec["n"]; nodes = list(range(n))
    I0 = list(spec["I0"])
    tmin = num(spec.get("tmin", 0)); tmax = num(spec.get("tmax", 6.0))
    tau = spec["tau"]; gamma = spec["gamma"]; tw = spec.get("tw"); rw = spec.get("rw")
    menu = spec["menu"]; budget = spec.get("budget", 8)
    full = bool(spec.get("full", True))
    cls = "weighted" if (tw or rw) else "plain"
    wE = lambda u, v: (G[u][v][tw] if tw else 1.0)
    wN = lambda u: (G.nodes[u][rw] if rw else 1.0)
    at = spec.get("argtype")
    cast = {None: (lambda x: x), "int": (lambda x: x if x in (INF, -INF) else int(x)), "np": np.float64,
            "npint": (lambda x: x if x in (INF, -INF) else np.int64(x))}[at]
    tau_a, gamma_a, tmin_a, tmax_a = cast(tau), cast(gamma), cast(tmin), cast(tmax)
    if at:
        cls = cls + "+argtype:" + at

    def pol(orc, rate, frame):
        kind, who, now = _who_sis(frame)
        i = orc.n_exp
        tidx = len(orc.trace)
        if i >= budget:
            val = BIG; tidx = None
        else:
            val = orc.pick("exp", menu, info=(kind, who)) + 2.0 ** -(12 + i)
        orc.log.append(("draw", kind, who, rate, val, now, tidx))
        return val, None

    def call(orc, full_):
        return EoN.fast_SIS(G, tau_a, gamma_a, initial_infecteds=list(I0), tmin=tmin_a, tmax=tmax_a,
                            transmission_weight=tw, recovery_weight=rw, return_full_data=full_)

    before = mon.snap(G)
    try:
        runs = list(explore(sim, lambda orc: call(orc, full), exp=pol, cap=spec.get("cap", 400000), stats=A.count))
    except CapHit as e:
        A.caps.append(str(e)); return A.result(props)
    A.execs = len(runs); A.selfchecks = A.count.pop("selfchecks", 0)
    if "C19" in props:
        for s, m in mon.c19_compare([before], [mon.snap(G)], ["G"]):
            A.add(V("C19", fn, cls, s, m))
    anchor_groups = {}
    for r in runs:
        pre = r.chosen()
        if r.exc is not None:
            for p in ("C02", "C04"):
                if p in props:
                    A.add(V(p, fn, cls, "exception", "fast_SIS raised %r" % (r.exc,), pre))
            continue
        out = r.out
        arrs = None if full else list(out)
        A.outcomes.add(hsh(mon.hist_of(out, nodes) if full else [a.tolist() for a in arrs]))
        A.count["rows_checked"] = A.count.get("rows_checked", 0) + 1
        if "C02" in props:
            errs, events, anch = monitor_fast_sis(r.log, G, tau, gamma, wE, wN, I0, tmin, tmax)
            for (tidx, pair, A_) in anch:
                anchor_groups.setdefault((pre[:tidx], pair), {}).setdefault(A_, pre)
            for s, m in errs[:2]:
                A.add(V("C02", fn, cls, s, m, pre))
            A.states.add(hsh(events))
            if len(events) > len(I0):
                A.nontrivial.add(pre)
            if not errs:
                want = sorted(events, key=lambda e: (e[0], e[1], repr(e[2]), repr(e[3])))
                A.trans.add(hsh(want))
                if full:
                    obs = observed_events(out, nodes)
                    if obs != want:
                        A.add(V("C02", fn, cls, "output_vs_events", "reported history %r differs from the events the queue executed %r" % (obs, want), pre, obs, want))
                else:
                    rows = arrays_from_events(n, I0, tmin, sorted(events, key=lambda e: e[0]))
                    got = list(zip(*[np.asarray(a).tolist() for a in arrs]))
                    if got != rows:
                        A.add(V("C02", fn, cls, "output_vs_events", "arrays %r differ from the events the queue executed %r" % (got, rows), pre, got, rows))
        sis_riders(A, props, fn, cls, G, nodes, I0, tmin, tmax, out, arrs, full, pre, sim, call, exp=pol)
    if "C02" in props:
        # hyper-property over sibling executions: the instant a clock starts from may not depend
        # on the value drawn for it (otherwise the delay is not exponential)
        for (pfx, pair), d in anchor_groups.items():
            if len(d) > 1:
                A.add(V("C02", fn, cls, "anchor_depends_on_draw", "clock %r->%r: executions that differ only in the value of its last exponential draw start it from different instants %r" % (pair[0], pair[1], sorted(d)), sorted(d.values(), key=len)[0]))
                break
    if runs:
        r = runs[len(runs) // 2]
        A.sample = {"spec": spec, "choices": list(r.chosen()),
                    "draws": [[x[1], repr(x[2]), x[3], x[4]] for x in r.log if x[0] == "draw"][:10]}
    return A.result(props)


# ------------------------------------------------------------------------------------------
# spec enumeration
# ------------------------------------------------------------------------------------------

def specs_nonmarkov_sis(tier):
    out = []
    thorough = tier != "quick"
    gs = [gr.NAMED[k] for k in ("P2", "P3", "K3")]
    if thorough:
        gs += [gr.NAMED[k] for k in ("C4", "S4", "P4")]
    jit1 = 1.0 + 2.0 ** -11
    for n, es in gs:
        for I0 in gr.subsets(range(n), 1, n if n <= 3 else 2):
            for form in ("sep", "joint"):
                for full in (True, False):
                    # a-priori bound: each infection has 2 durations x 4 delay lists per neighbour
                    if len(es) <= 1:
                        b = 5 if thorough else 4
                    elif len(es) == 2:
                        b = 4 if thorough else 3
                    elif n == 3:
                        b = 3 if thorough else 2          # K3: 32 options per infection
                    else:
                        b = 2                              # 4-node graphs
                    out.append(dict(fn="fast_nonMarkov_SIS", n=n, edges=es, I0=list(I0), tmax=6.0, budget=b,
                                    form=form, full=full))
            if len(I0) == 1 and n == 3 and len(es) == 2:
                # directed contact networks: attempts only along edge direction
                for des in ([(0, 1), (1, 2)], [(1, 0), (1, 2)], [(0, 1), (1, 0), (1, 2), (2, 0)], [(0, 1), (1, 2), (2, 0)]):
                    for form in ("sep", "joint"):
                        for full in (True, False):
                            out.append(dict(fn="fast_nonMarkov_SIS", n=3, edges=des, directed=True, I0=list(I0), tmax=6.0, budget=3 if len(des) <= 2 else 2,
                                            form=form, full=full))
            if len(I0) == 1:
                for form in ("sep_args", "joint_args"):
                    for full in (True, False):
                        out.append(dict(fn="fast_nonMarkov_SIS", n=n, edges=es, I0=list(I0), tmax=6.0, budget=3 if len(es) <= 2 else 2,
                                        form=form, full=full))
            # exact hit: the first recovery (duration 1+2^-11) lands exactly on tmax; shifted tmin
            out.append(dict(fn="fast_nonMarkov_SIS", n=n, edges=es, I0=list(I0), tmin=0, tmax=jit1, budget=3 if len(es) <= 2 else 2,
                            durations=[1.0, 2.5], form="sep", full=True))
            out.append(dict(fn="fast_nonMarkov_SIS", n=n, edges=es, I0=list(I0), tmin=1.5, tmax=4.0, budget=3 if len(es) <= 2 else 2,
                            form="sep", full=False))
            # negative start times (defaults such as "-1" must not leak into the dynamics)
            out.append(dict(fn="fast_nonMarkov_SIS", n=n, edges=es, I0=list(I0), tmin=-3, tmax=1.0, budget=3 if len(es) <= 2 else 2,
                            form="sep", full=True))
            out.append(dict(fn="fast_nonMarkov_SIS", n=n, edges=es, I0=list(I0), tmin=-7.5, tmax=-2.0, budget=3 if len(es) <= 2 else 2,
                            form="joint", full=False))
    return out


def specs_fast_sis(tier):
    out = []
    thorough = tier != "quick"
    menu = [0.4, 1.0, 2.7] if thorough else [0.4, 1.6]
    gs = [gr.NAMED[k] for k in ("P2", "P3", "K3")]
    gs += [gr.NAMED[k] for k in (("C4", "S4", "P4", "paw") if thorough else ("S4",))]
    for n, es in gs:
        for (tw, rw) in ((None, None), ("w", "rw")):
            for I0 in gr.subsets(range(n), 1, n if n <= 3 else 1):
                for full in (True, False):
                    if not full and len(I0) > 1:
                        continue
                    b = (10 if thorough else 9) if n <= 3 else (8 if thorough else 7)
                    out.append(dict(fn="fast_SIS", n=n, edges=es, I0=list(I0), tau=0.3, gamma=0.7, tw=tw, rw=rw,
                                    tmax=6.0, menu=menu, budget=b, full=full, zero_w=(n > 3)))
        for (tau, gamma) in ((0.0, 0.7), (0.3, 0.0)):
            out.append(dict(fn="fast_SIS", n=n, edges=es, I0=[0], tau=tau, gamma=gamma, tw=None, rw=None,
                            tmax=6.0, menu=menu, budget=7, full=True))
        out.append(dict(fn="fast_SIS", n=n, edges=es, I0=[0], tau=1.1, gamma=1.0, tw=None, rw=None,
                        tmin=1.5, tmax=4.0, menu=menu, budget=7, full=False))
        out.append(dict(fn="fast_SIS", n=n, edges=es, I0=[n - 1], tau=1.1, gamma=1.0, tw=None, rw=None,
                        tmin=-6.5, tmax=-1.0, menu=menu, budget=7, full=True))
        if n == 3:
            out.append(dict(fn="fast_SIS", n=n, edges=list(es) + [(1, 1)], I0=[1], tau=0.3, gamma=0.7, tw=None, rw=None,
                            tmax=6.0, menu=menu, budget=8, full=True))
    for (n, es) in (gr.NAMED["K3"], gr.NAMED["P3"]):
        for (tw, rw) in ((None, None), ("w", "rw")):
            for at, tau, gamma, tmin, tmax in (("int", 1, 2, 0, 3), ("int", 2, 1, -1, 2), ("int", 0, 1, 0, 2), ("int", 1, 0, 0, 2),
                                               ("npint", 1, 2, 0, 3), ("npint", 1, 0, 1, 3),
                                               ("np", 0.3, 0.7, 0, 3.5), ("np", 1.1, 0.0, 1.5, 3.5), ("np", 0.0, 0.7, 0, 2)):
                for I0 in ([0], [1]):
                    for full in (False, True):
                        out.append(dict(fn="fast_SIS", n=n, edges=es, I0=I0, tau=tau, gamma=gamma, tw=tw, rw=rw, menu=menu[:2], budget=7, full=full,
                                        tmin=tmin, tmax=tmax, argtype=at))
    return out
