"""Catalogue of the analytic (ODE) entry points of EoN: how each is called from a graph and an
initial-condition request, and the *documented* order of what it returns."""
import numpy as np
import networkx as nx
from collections import Counter

# wrappers with the standard signature f(G, tau, gamma, initial_infecteds=None[, initial_recovereds=None], rho=None, tmin, tmax, tcount[, return_full_data])
# model, has R0, has return_full_data, documented full-data layout (names after t)
GRAPH_WRAPPERS = {
    "SIS_homogeneous_meanfield_from_graph": ("SIS", False, False, None),
    "SIR_homogeneous_meanfield_from_graph": ("SIR", True, False, None),
    "SIS_homogeneous_pairwise_from_graph": ("SIS", False, True, ["S", "I", "SI", "SS", "II"]),
    "SIR_homogeneous_pairwise_from_graph": ("SIR", True, True, ["S", "I", "R", "SI", "SS"]),
    "SIS_heterogeneous_meanfield_from_graph": ("SIS", False, True, ["S", "I", "Sk", "Ik"]),
    "SIR_heterogeneous_meanfield_from_graph": ("SIR", True, True, ["Sk", "Ik", "Rk"]),
    "SIS_heterogeneous_pairwise_from_graph": ("SIS", False, True, ["S", "I", "SkK", "IkK", "SkIl", "SkSl", "IkIl"]),
    "SIR_heterogeneous_pairwise_from_graph": ("SIR", True, True, ["S", "I", "R", "SkK", "IkK", "RkK", "SkIl", "SkSl"]),
    "SIS_compact_pairwise_from_graph": ("SIS", False, True, ["S", "I", "Sk", "Ik", "SI", "SS", "II"]),
    "SIR_compact_pairwise_from_graph": ("SIR", True, True, ["Sk", "I", "R", "SS", "SI"]),
    "SIS_super_compact_pairwise_from_graph": ("SIS", False, True, ["S", "I", "SS", "SI", "II"]),
    "SIR_super_compact_pairwise_from_graph": ("SIR", True, True, ["S", "I", "R", "SS", "SI"]),
    "SIS_effective_degree_from_graph": ("SIS", False, True, ["S", "I", "Ssi", "Isi"]),
    "SIR_effective_degree_from_graph": ("SIR", True, True, ["S", "I", "R", "Ssi"]),
    "SIS_compact_effective_degree_from_graph": ("SIS", False, True, ["S", "I", "Sk", "Ik", "SI", "SS", "II"]),
    "SIR_compact_effective_degree_from_graph": ("SIR", True, True, ["S", "I", "R", "Skappa", "SI"]),
    "EBCM_from_graph": ("SIR", True, True, ["S", "I", "R", "theta"]),
}
DISCRETE_WRAPPERS = {
    "EBCM_discrete_from_graph": ("SIR", True, True, ["S", "I", "R", "theta"]),
}
RHO_ONLY = {
    "EBCM_pref_mix_from_graph": ("SIR", False, True, ["S", "I", "R", "thetadict"]),
}
RHO_ONLY_DISCRETE = {
    "EBCM_pref_mix_discrete_from_graph": ("SIR", False, True, ["S", "I", "R", "thetadict"]),
}
NODE_LEVEL = {
    # name: (model, kind)  kind: 'rho' takes rho=, 'pure' takes initial_infecteds[, initial_recovereds]
    "SIS_individual_based": ("SIS", "rho", ["Ss", "Is"]),
    "SIR_individual_based": ("SIR", "rho", ["S", "I", "R", "Ss", "Is", "Rs"]),
    "SIS_individual_based_pure_IC": ("SIS", "pure", ["Ss", "Is"]),
    "SIR_individual_based_pure_IC": ("SIR", "pure", ["S", "I", "R", "Ss", "Is", "Rs"]),
    "SIS_pair_based": ("SIS", "rho", ["S", "I", "Xs", "Ys", "XY", "XX"]),
    "SIR_pair_based": ("SIR", "rho", ["S", "I", "R", "Xs", "Ys", "Zs", "XY", "XX"]),
    "SIS_pair_based_pure_IC": ("SIS", "pure", ["S", "I", "Xs", "Ys", "XY", "XX"]),
    "SIR_pair_based_pure_IC": ("SIR", "pure", ["S", "I", "R", "Xs", "Ys", "Zs", "XY", "XX"]),
}


def all_names():
    return list(GRAPH_WRAPPERS) + list(DISCRETE_WRAPPERS) + list(RHO_ONLY) + list(RHO_ONLY_DISCRETE) + list(NODE_LEVEL)


def info(name):
    for d in (GRAPH_WRAPPERS, DISCRETE_WRAPPERS, RHO_ONLY, RHO_ONLY_DISCRETE):
        if name in d:
            m, hasR0, hasfull, lay = d[name]
            return dict(model=m, hasR0=hasR0, hasfull=hasfull, layout=lay,
                        discrete=(d is DISCRETE_WRAPPERS or d is RHO_ONLY_DISCRETE),
                        rho_only=(d is RHO_ONLY or d is RHO_ONLY_DISCRETE), node=False)
    m, kind, lay = NODE_LEVEL[name]
    return dict(model=m, hasR0=(m == "SIR" and kind == "pure"), hasfull=True, layout=lay, discrete=False,
                rho_only=(kind == "rho"), node=True, kind=kind)


def supports(name, ic):
    """ic = ('default',) | ('rho', r) | ('sets', I0, R0)"""
    inf = info(name)
    if ic[0] == "sets":
        if inf["rho_only"]:
            return False
        if ic[2] and not inf["hasR0"]:
            return False
        return True
    if ic[0] == "rho":
        return not (inf["node"] and inf["kind"] == "pure")
    if ic[0] == "default":
        if inf["node"]:
            return name in ("SIS_pair_based", "SIR_pair_based")
        return True
    return False


def call(EoN, name, G, ic, tau, gamma, grid, full, p=0.4, nodelist=None, tw=None, rw=None, i0_container=list):
    """grid = (tmin, tmax, tcount).  Returns the raw output tuple."""
    inf = info(name)
    f = getattr(EoN, name)
    tmin, tmax, tcount = grid
    kw = {}
    if inf["discrete"]:
        kw.update(tmin=tmin, tmax=tmax)
    else:
        kw.update(tmin=tmin, tmax=tmax, tcount=tcount)
    if inf["hasfull"]:
        kw["return_full_data"] = full
    if ic[0] == "rho":
        kw["rho"] = ic[1]
    elif ic[0] == "sets":
        kw["initial_infecteds"] = i0_container(ic[1])
        if ic[2]:
            kw["initial_recovereds"] = list(ic[2])
    if inf["node"]:
        if nodelist is not None:
            kw["nodelist"] = nodelist
        if tw: kw["transmission_weight"] = tw
        if rw: kw["recovery_weight"] = rw
    if inf["discrete"]:
        return f(G, p, **kw)
    return f(G, tau, gamma, **kw)


def times_expected(name, grid):
    tmin, tmax, tcount = grid
    if info(name)["discrete"]:
        return np.arange(tmin, tmax + 1)
    return np.linspace(tmin, tmax, tcount)


def sir_columns(name, out, full):
    """(t, S, I, R or None) as 1-D arrays from an output tuple, following the documented layout."""
    inf = info(name)
    t = np.asarray(out[0])
    lay = inf["layout"] if (full and inf["hasfull"]) else (["S", "I", "R"] if inf["model"] == "SIR" else ["S", "I"])
    vals = dict(zip(lay, out[1:]))

    def tot(x, kname):
        if x is None:
            return None
        a = np.asarray(x)
        return a if a.ndim == 1 else a.sum(axis=0)
    S = vals.get("S"); I = vals.get("I"); R = vals.get("R")
    if S is None:
        for k in ("Sk", "Ss"):
            if k in vals:
                S = np.asarray(vals[k]).sum(axis=0)
    if I is None:
        for k in ("Ik", "Is"):
            if k in vals:
                I = np.asarray(vals[k]).sum(axis=0)
    if R is None and inf["model"] == "SIR":
        for k in ("Rk", "Rs"):
            if k in vals:
                R = np.asarray(vals[k]).sum(axis=0)
    return t, (None if S is None else np.asarray(S)), (None if I is None else np.asarray(I)), (None if R is None else np.asarray(R)), vals, lay


# ------------------------------------------------------------------------------------------
# brute-force initial values
# ------------------------------------------------------------------------------------------

def expected_initial(G, ic, model):
    """Brute-force initial compartment / degree-class / pair counts for a request."""
    N = G.order()
    deg = dict(G.degree())
    maxk = max(deg.values())
    Nk = np.zeros(maxk + 1)
    for v, k in deg.items():
        Nk[k] += 1
    twoM = 2.0 * G.number_of_edges()
    E = {}
    if ic[0] in ("rho", "default"):
        rho = ic[1] if ic[0] == "rho" else 1.0 / N
        E["S"] = (1 - rho) * N; E["I"] = rho * N; E["R"] = 0.0
        E["Sk"] = (1 - rho) * Nk; E["Ik"] = rho * Nk; E["Rk"] = 0 * Nk
        E["SS"] = (1 - rho) ** 2 * twoM; E["SI"] = rho * (1 - rho) * twoM; E["II"] = rho ** 2 * twoM
        E["theta"] = 1.0
        E["node_S"] = {v: 1 - rho for v in G}; E["node_I"] = {v: rho for v in G}; E["node_R"] = {v: 0.0 for v in G}
        E["Skappa"] = (1 - rho) * Nk
        Ks = sorted(set(deg.values()))
        NkNl = np.zeros((len(Ks), len(Ks)))
        for u, v in G.edges():
            a, b = Ks.index(deg[u]), Ks.index(deg[v])
            NkNl[a][b] += 1; NkNl[b][a] += 1
        E["Ks"] = Ks
        E["SkSl"] = (1 - rho) ** 2 * NkNl; E["SkIl"] = rho * (1 - rho) * NkNl; E["IkIl"] = rho ** 2 * NkNl
        from math import comb
        Ssi = np.zeros((maxk + 1, maxk + 1)); Isi = np.zeros((maxk + 1, maxk + 1))
        for s_ in range(maxk + 1):
            for i_ in range(maxk + 1 - s_):
                w = Nk[s_ + i_] * comb(s_ + i_, i_) * rho ** i_ * (1 - rho) ** s_
                Ssi[s_, i_] = (1 - rho) * w; Isi[s_, i_] = rho * w
        E["Ssi"] = Ssi; E["Isi"] = Isi
        return E
    I0, R0 = set(ic[1]), set(ic[2])
    st = {v: ("I" if v in I0 else ("R" if v in R0 else "S")) for v in G}
    E["S"] = float(sum(1 for v in G if st[v] == "S")); E["I"] = float(len(I0)); E["R"] = float(len(R0))
    for X in "SIR":
        a = np.zeros(maxk + 1)
        for v in G:
            if st[v] == X:
                a[deg[v]] += 1
        E[X + "k"] = a
    SS = SI = II = 0.0
    for u, v in G.edges():
        pair = {st[u], st[v]}
        if st[u] == "S" and st[v] == "S": SS += 2
        elif pair == {"S", "I"}: SI += 1
        elif st[u] == "I" and st[v] == "I": II += 2
    E["SS"] = SS; E["SI"] = SI; E["II"] = II; E["theta"] = 1.0
    E["node_S"] = {v: float(st[v] == "S") for v in G}; E["node_I"] = {v: float(st[v] == "I") for v in G}; E["node_R"] = {v: float(st[v] == "R") for v in G}
    # effective degree classes
    Ssi = np.zeros((maxk + 1, maxk + 1)); Isi = np.zeros((maxk + 1, maxk + 1))
    Skappa = np.zeros(maxk + 1)
    for v in G:
        s = sum(1 for w in G.neighbors(v) if st[w] == "S"); i = sum(1 for w in G.neighbors(v) if st[w] == "I")
        if st[v] == "S":
            Ssi[s][i] += 1
            Skappa[s + i] += 1
        elif st[v] == "I":
            Isi[s][i] += 1
    E["Ssi"] = Ssi; E["Isi"] = Isi; E["Skappa"] = Skappa
    Ks = sorted(set(deg.values()))
    E["Ks"] = Ks
    n = len(Ks)
    SkSl = np.zeros((n, n)); SkIl = np.zeros((n, n)); IkIl = np.zeros((n, n))
    for u, v in G.edges():
        for (a, b) in ((u, v), (v, u)):
            i, j = Ks.index(deg[a]), Ks.index(deg[b])
            if st[a] == "S" and st[b] == "S": SkSl[i][j] += 1
            if st[a] == "S" and st[b] == "I": SkIl[i][j] += 1
            if st[a] == "I" and st[b] == "I": IkIl[i][j] += 1
    E["SkSl"] = SkSl; E["SkIl"] = SkIl; E["IkIl"] = IkIl
    return E
