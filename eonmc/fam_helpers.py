"""Driver family: time-series and degree-distribution helpers (C20)."""
import itertools, warnings
from fractions import Fraction
import numpy as np
import networkx as nx
from . import import_eon
from .common import V, Acc, hsh
from . import graphs as gr


def nondecreasing(alphabet, length):
    return [list(c) for c in itertools.combinations_with_replacement(alphabet, length)]


def step_fn(times, series, q):
    """value of the last observation at or before q"""
    k = None
    for i, t in enumerate(times):
        if t <= q:
            k = i
    return series[k]


def run_spec(spec, props=("C20",)):
    EoN, sim = import_eon()
    warnings.filterwarnings("ignore")
    np.seterr(all="ignore")
    A = Acc()
    kind = spec["kind"]
    if kind == "subsample":
        alpha = spec["alphabet"]
        for times in spec["times"]:
            n = len(times)
            s1 = [10 + i for i in range(n)]; s2 = [50 - 3 * i for i in range(n)]; s3 = [7 * i % 5 + 100 for i in range(n)]
            if spec.get("fractional"):
                # fractional observations on an integer-typed report grid (prevalences, ODE output): values are not truncated
                s1 = [0.25 + 0.5 * i for i in range(n)]; s2 = [0.875 - 0.125 * i for i in range(n)]; s3 = [(7 * i % 5) / 4.0 + 0.5 for i in range(n)]
            for L in range(1, spec["maxlen"] + 1):
                for rep in nondecreasing(alpha + spec.get("beyond", []), L):
                    if rep[0] < times[0]:
                        continue
                    for nser in (1, 2, 3):
                        for cont in ("list", "array"):
                            if cont == "array" and nser != 3:
                                continue
                            conv = (lambda x: np.array(x)) if cont == "array" else (lambda x: list(x))
                            A.evals += 1
                            tag = "subsample(report_times=%r, times=%r, %d series)" % (rep, times, nser)
                            ser = [s1, s2, s3][:nser]
                            try:
                                out = EoN.subsample(conv(rep), conv(times), *[conv(s) for s in ser])
                            except Exception as e:
                                A.add(V("C20", "subsample", "series%d" % nser, "exception", "%s raised %s: %s" % (tag, type(e).__name__, str(e)[:80]))); continue
                            outs = [out] if nser == 1 else list(out)
                            A.states.add((tuple(times), tuple(rep), nser)); A.trans.add((tuple(times), tuple(rep)))
                            if len(set(times)) > 1:
                                A.nontrivial.add((tuple(times), tuple(rep), nser))
                            if len(outs) != nser:
                                A.add(V("C20", "subsample", "series%d" % nser, "arity", "%s returned %d series" % (tag, len(outs)))); continue
                            for k, (o, s) in enumerate(zip(outs, ser)):
                                want = [step_fn(times, s, q) for q in rep]
                                got = list(np.asarray(o).tolist())
                                if got != want:
                                    A.add(V("C20", "subsample", "series%d" % nser, "value", "%s: series %d gives %r, last observation at or before each report time is %r" % (tag, k + 1, got, want), (), got, want))
                                    break
                            A.outcomes.add(hsh([np.asarray(o).tolist() for o in outs]))
        A.execs = A.evals
        A.sample = {"times": spec["times"][0]}
        return A.result(props)
    if kind == "time_shift":
        for n in range(1, spec["maxlen"] + 1):
            times = [0.5 * i + 1 for i in range(n)]
            for Ls in itertools.product(spec["values"], repeat=n):
                for thr in spec["thresholds"]:
                    if max(Ls) < thr:
                        continue
                    for cont in (list, np.array):
                        A.evals += 1
                        want = next(t for t, x in zip(times, Ls) if x >= thr)
                        try:
                            got = EoN.get_time_shift(cont(times), cont(Ls), thr)
                        except Exception as e:
                            A.add(V("C20", "get_time_shift", "plain", "exception", "get_time_shift(%r,%r,%r) raised %r" % (times, Ls, thr, e))); continue
                        A.states.add((Ls, thr)); A.trans.add((Ls, thr)); A.nontrivial.add((Ls, thr)); A.outcomes.add(float(got))
                        if got != want:
                            A.add(V("C20", "get_time_shift", "plain", "value", "get_time_shift(%r, %r, %r) = %r, first time at which the series reaches the threshold is %r" % (times, list(Ls), thr, got, want), (), got, want))
        A.execs = A.evals
        A.sample = {"spec": spec}
        return A.result(props)
    if kind == "degree":
        pts = [Fraction(1, 4), Fraction(1, 2), Fraction(3, 4), Fraction(1)]
        for (n, es) in spec["graphs"]:
            es = [tuple(e) for e in es]
            G = gr.mk(n, es)
            if spec.get("variant") == "loops":          # degree = what G.degree() says (a self-loop counts twice)
                G.add_edge(0, 0)
                if n > 2:
                    G.add_edge(n - 1, n - 1)
            elif spec.get("variant") == "multi" and es:   # parallel edges count separately
                G = nx.MultiGraph(G); G.add_edge(*es[0]); G.add_edge(*es[-1])
            A.evals += 1
            deg = dict(G.degree())
            hist = {}
            for v, k in deg.items():
                hist[k] = hist.get(k, 0) + 1
            PkF = {k: Fraction(c, n) for k, c in hist.items()}
            tag = "graph n=%d edges=%r%s" % (n, es, (" (+%s)" % spec["variant"]) if spec.get("variant") else "")
            A.states.add((n, tuple(es), spec.get("variant"))); A.trans.add((n, tuple(es))); A.nontrivial.add((n, tuple(es)))
            try:
                Pk = EoN.get_Pk(G)
            except Exception as e:
                A.add(V("C20", "get_Pk", "graph", "exception", "%s: get_Pk raised %r" % (tag, e))); continue
            if set(Pk) != set(PkF) or any(abs(Pk[k] - float(PkF[k])) > 1e-12 for k in PkF) or abs(sum(Pk.values()) - 1) > 1e-12:
                A.add(V("C20", "get_Pk", "graph", "value", "%s: get_Pk=%r, degree histogram gives %r" % (tag, Pk, {k: float(v) for k, v in PkF.items()})))
            psi = EoN.get_PGF(Pk); psiP = EoN.get_PGFPrime(Pk); psiDP = EoN.get_PGFDPrime(Pk)
            for x in pts:
                w0 = sum(PkF[k] * x ** k for k in PkF)
                w1 = sum(k * PkF[k] * x ** (k - 1) for k in PkF if k >= 1)
                w2 = sum(k * (k - 1) * PkF[k] * x ** (k - 2) for k in PkF if k >= 2)
                for nm, f, w in (("get_PGF", psi, w0), ("get_PGFPrime", psiP, w1), ("get_PGFDPrime", psiDP, w2)):
                    g = float(f(float(x)))
                    if not np.isfinite(g) or abs(g - float(w)) > 1e-12:
                        A.add(V("C20", nm, "graph", "value", "%s: %s(%s) = %r, exact polynomial value %r" % (tag, nm, x, g, float(w)), (), g, float(w)))
            kave = sum(k * PkF[k] for k in PkF); k2 = sum(k * (k - 1) * PkF[k] for k in PkF)
            if abs(psi(1.0) - 1) > 1e-12 or abs(psiP(1.0) - float(kave)) > 1e-12 or abs(psiDP(1.0) - float(k2)) > 1e-12:
                A.add(V("C20", "get_PGF", "graph", "moments", "%s: psi(1), psi'(1), psi''(1) = %r, %r, %r; expected 1, %r, %r" % (tag, psi(1.0), psiP(1.0), psiDP(1.0), float(kave), float(k2))))
            if es and not spec.get("variant"):
                try:
                    Pnk = EoN.get_Pnk(G)
                    for k1 in hist:
                        if k1 == 0:
                            continue
                        row = {}
                        tot = 0
                        for v in G:
                            if deg[v] == k1:
                                for w in G.neighbors(v):
                                    row[deg[w]] = row.get(deg[w], 0) + 1; tot += 1
                        want = {k2_: Fraction(c, tot) for k2_, c in row.items()}
                        got = dict(Pnk[k1])
                        if abs(sum(got.values()) - 1) > 1e-12 or any(abs(got.get(k2_, 0) - float(want[k2_])) > 1e-12 for k2_ in want) or any(k2_ not in want and abs(got[k2_]) > 1e-12 for k2_ in got):
                            A.add(V("C20", "get_Pnk", "graph", "value", "%s: get_Pnk[%d] = %r, neighbour degree distribution is %r" % (tag, k1, got, {a: float(b) for a, b in want.items()})))
                except Exception as e:
                    A.add(V("C20", "get_Pnk", "graph", "exception", "%s: get_Pnk raised %r" % (tag, e)))
                for (tau, gamma, T) in ((0.3, 0.7, None), (1.1, 1.0, None), (None, None, 0.25)):
                    want = (T if T is not None else tau / (tau + gamma)) * float(k2) / float(kave)
                    try:
                        got = EoN.estimate_R0(G, tau=tau, gamma=gamma, transmissibility=T)
                    except Exception as e:
                        A.add(V("C20", "estimate_R0", "graph", "exception", "%s: estimate_R0 raised %r" % (tag, e))); continue
                    if abs(got - want) > 1e-12 * max(1, abs(want)):
                        A.add(V("C20", "estimate_R0", "graph", "value", "%s: estimate_R0(tau=%r,gamma=%r,T=%r) = %r, T<k^2-k>/<k> = %r" % (tag, tau, gamma, T, got, want), (), got, want))
            # histories: the SAME graph object is rewired in place (one edge moved: node and edge counts unchanged) and asked again;
            # every (edge, non-edge) move and its reversal on graphs of <=5 nodes, the first 8 moves on larger ones
            if es and not spec.get("variant") and not G.is_multigraph():
                nonedges = [(u, v) for u in range(n) for v in range(u + 1, n) if not G.has_edge(u, v)]
                moves = [(e, f) for e in es for f in nonedges]
                if n > 5:
                    moves = moves[:8]
                edits = []
                for (e, f) in moves:
                    for (rem, add, what) in ((e, f, "moved"), (f, e, "moved back")):
                        edits.append((("move", rem, add), "edge %r %s to %r" % (e, what, f)))
                # and the node set changes on the same object: a new isolated node, an edge to it, the node removed again
                edits += [(("addnode", n), "node %d added" % n), (("addedge", (0, n)), "edge (0, %d) added" % n), (("delnode", n), "node %d removed again" % n)]
                for (ed, descr) in edits:
                    for _once in (0,):
                        if ed[0] == "move":
                            G.remove_edge(*ed[1]); G.add_edge(*ed[2])
                        elif ed[0] == "addnode":
                            G.add_node(ed[1])
                        elif ed[0] == "addedge":
                            G.add_edge(*ed[1])
                        else:
                            G.remove_node(ed[1])
                        A.evals += 1
                        A.trans.add((n, tuple(es), ed))
                        d2 = dict(G.degree()); h2 = {}
                        for v, k in d2.items():
                            h2[k] = h2.get(k, 0) + 1
                        P2 = {k: Fraction(c, G.order()) for k, c in h2.items()}
                        A.states.add((G.order(), tuple(sorted(tuple(sorted(x)) for x in G.edges()))))
                        tag2 = "%s, then %s in place" % (tag, descr)
                        try:
                            got = EoN.get_Pk(G)
                        except Exception as ex:
                            A.add(V("C20", "get_Pk", "graph+rewired", "exception", "%s: get_Pk raised %r" % (tag2, ex))); continue
                        if set(got) != set(P2) or any(abs(got[k] - float(P2[k])) > 1e-12 for k in P2):
                            A.add(V("C20", "get_Pk", "graph+rewired", "value", "%s: get_Pk=%r, degree histogram gives %r" % (tag2, got, {k: float(v) for k, v in P2.items()})))
                        ka = sum(k * P2[k] for k in P2); kk = sum(k * (k - 1) * P2[k] for k in P2)
                        want = 0.25 * float(kk) / float(ka)
                        try:
                            r0 = EoN.estimate_R0(G, transmissibility=0.25)
                            if abs(r0 - want) > 1e-12 * max(1, abs(want)):
                                A.add(V("C20", "estimate_R0", "graph+rewired", "value", "%s: estimate_R0(T=0.25) = %r, T<k^2-k>/<k> = %r" % (tag2, r0, want), (), r0, want))
                        except Exception as ex:
                            A.add(V("C20", "estimate_R0", "graph+rewired", "exception", "%s: estimate_R0 raised %r" % (tag2, ex)))
                        try:
                            Pnk2 = EoN.get_Pnk(G)
                            for k1 in h2:
                                if k1 == 0:
                                    continue
                                row = {}; tot = 0
                                for v in G:
                                    if d2[v] == k1:
                                        for w in G.neighbors(v):
                                            row[d2[w]] = row.get(d2[w], 0) + 1; tot += 1
                                g2 = dict(Pnk2[k1])
                                if any(abs(g2.get(k2_, 0) - c / tot) > 1e-12 for k2_, c in row.items()) or any(k2_ not in row and abs(g2[k2_]) > 1e-12 for k2_ in g2):
                                    A.add(V("C20", "get_Pnk", "graph+rewired", "value", "%s: get_Pnk[%d] = %r, neighbour degree distribution is %r" % (tag2, k1, g2, {a: b / tot for a, b in row.items()})))
                        except Exception as ex:
                            A.add(V("C20", "get_Pnk", "graph+rewired", "exception", "%s: get_Pnk raised %r" % (tag2, ex)))
            A.outcomes.add(hsh(sorted(Pk.items())))
        A.execs = A.evals
        A.sample = {"graph": spec["graphs"][0]}
        return A.result(props)
    if kind == "hist":
        pts = [Fraction(1, 4), Fraction(1, 2), Fraction(3, 4), Fraction(1)]
        for Nk in spec["hists"]:
            N = sum(Nk)
            A.evals += 1
            PkF = {k: Fraction(c, N) for k, c in enumerate(Nk) if c}
            Pk = {k: float(v) for k, v in PkF.items()}
            A.states.add(tuple(Nk)); A.trans.add(tuple(Nk)); A.nontrivial.add(tuple(Nk))
            psi = EoN.get_PGF(Pk); psiP = EoN.get_PGFPrime(Pk); psiDP = EoN.get_PGFDPrime(Pk)
            for x in pts:
                w = [sum(PkF[k] * x ** k for k in PkF), sum(k * PkF[k] * x ** (k - 1) for k in PkF if k >= 1), sum(k * (k - 1) * PkF[k] * x ** (k - 2) for k in PkF if k >= 2)]
                for nm, f, ww in zip(("get_PGF", "get_PGFPrime", "get_PGFDPrime"), (psi, psiP, psiDP), w):
                    g = float(f(float(x)))
                    if not np.isfinite(g) or abs(g - float(ww)) > 1e-12:
                        A.add(V("C20", nm, "histogram", "value", "degree histogram %r: %s(%s) = %r, exact polynomial value %r" % (Nk, nm, x, g, float(ww)), (), g, float(ww)))
            A.outcomes.add(hsh(Nk))
        A.execs = A.evals
        A.sample = {"hist": spec["hists"][0]}
        return A.result(props)
    raise ValueError(kind)


def specs(tier):
    out = []
    thorough = tier != "quick"
    alpha = [0, 1, 2, 3]
    alltimes = []
    for L in range(1, 5):
        alltimes += nondecreasing(alpha, L)
    for i in range(0, len(alltimes), 8):
        out.append(dict(kind="subsample", alphabet=alpha, beyond=[5] , times=alltimes[i:i + 8], maxlen=4 if thorough else 3))
    out.append(dict(kind="subsample", alphabet=[0.5, 1.5, 2.5], beyond=[], times=[t for t in alltimes if len(t) >= 2][:40], maxlen=3))
    out.append(dict(kind="subsample", alphabet=alpha, beyond=[5], times=[t for t in alltimes if len(t) >= 2][:60], maxlen=3, fractional=True))
    out.append(dict(kind="time_shift", maxlen=4 if not thorough else 5, values=[0, 1, 2], thresholds=[1, 2, 0.5]))
    # values a hair below the threshold have not reached it (no tolerance in "reaches"); large counts
    out.append(dict(kind="time_shift", maxlen=3, values=[0, 99999, 100000, 100001], thresholds=[100000]))
    out.append(dict(kind="time_shift", maxlen=3, values=[0.0, 1 - 1e-9, 1.0, 1 + 1e-9], thresholds=[1.0]))
    out.append(dict(kind="time_shift", maxlen=3, values=[0.0, 0.01 * (1 - 2e-6), 0.01], thresholds=[0.01]))
    graphs = [(n, es) for n, es in gr.small_graphs(3)] + [(4, es) for es in gr.shapes(4)] + [(5, es) for es in gr.shapes(5)]
    if thorough:
        graphs += [(6, es) for es in gr.trees_cached(6)] + [(n, es) for (_, n, es) in gr.regular_graphs()]
    for i in range(0, len(graphs), 10):
        out.append(dict(kind="degree", graphs=graphs[i:i + 10]))
    # larger node counts: class sizes c with (c/N)*N just below c in floating point (29 of 50, 57 of 100, 1 of 49)
    def big(ncyc, nmatch, niso, extra=()):
        es = [(i, (i + 1) % ncyc) for i in range(ncyc)] + [(ncyc + 2 * j, ncyc + 2 * j + 1) for j in range(nmatch)] + list(extra)
        return (ncyc + 2 * nmatch + niso, es)
    out.append(dict(kind="degree", graphs=[big(29, 10, 1), big(57, 21, 1), big(46, 1, 1), big(29, 10, 1, extra=[(0, 29)])]))
    small = [(n, es) for n, es in graphs if n <= 4]
    out.append(dict(kind="degree", graphs=small, variant="loops"))
    out.append(dict(kind="degree", graphs=[g for g in small if g[1]], variant="multi"))
    hists = [list(h) for h in itertools.product(range(4 if thorough else 3), repeat=5) if sum(h) > 0]
    for i in range(0, len(hists), 64):
        out.append(dict(kind="hist", hists=hists[i:i + 64]))
    return out
