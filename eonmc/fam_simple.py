"""Driver family: Gillespie_simple_contagion under the choice-point oracle (C03).

Programs (model specifications) are enumerated: a named catalogue plus every spec over three
statuses with <=1 spontaneous and <=1 (thorough: <=2) induced transitions.  Oracle: in every
reached state the offered events and the clock rate equal the reference chain built by brute
force from the spec; the simulator's internal candidate sets equal the sets implied by the
statuses after every event.  Riders: C04 C09 C10 C19.
"""
import itertools
import networkx as nx
import numpy as np
from . import import_eon
from .core import explore, run_once, segments, CapHit, HarnessError
from .common import V, Acc, hsh
from .ref import num, INF, spec_rates
from . import graphs as gr
from . import monitors as mon

TOL = 1e-9
EDGE_BUMP_FACTOR = 1.75     # nbr_kwargs carry a different value than spont_kwargs

# harness rate functions (asymmetric on purpose: a swapped source/target changes the value)
RF_NODE = {"deg": lambda G, node, **kw: 0.25 + 0.5 * G.degree(node) + kw.get("bump", 0.0),
           "idx": lambda G, node, **kw: 0.1 * (1 + node) + kw.get("bump", 0.0),
           "zero1": lambda G, node, **kw: 0.0 if node == 1 else 0.7}
RF_EDGE = {"asym": lambda G, s, t, **kw: 0.1 * (1 + s + 3 * t) + kw.get("bump", 0.0),
           "zero01": lambda G, s, t, **kw: 0.0 if (s, t) == (0, 1) else 0.6}


def build(spec):
    n = spec["n"]; directed = bool(spec.get("directed"))
    G = nx.DiGraph() if directed else nx.Graph()
    G.add_nodes_from(range(n))
    for i, (u, v) in enumerate([tuple(e) for e in spec["edges"]]):
        G.add_edge(u, v, ew=gr.EDGE_W[i % 3] if not spec.get("zero_w") else gr.EDGE_W[i % len(gr.EDGE_W)], weight=0.37 + 0.2 * i)
    for u in range(n):
        G.nodes[u]["nw"] = gr.NODE_W[u % len(gr.NODE_W)]
    H = nx.DiGraph(); J = nx.DiGraph()
    for (a, b, rate, wl, rf) in spec["H"]:
        kw = {"rate": rate}
        if wl: kw["weight_label"] = wl
        if rf: kw["rate_function"] = RF_NODE[rf]
        H.add_edge(a, b, **kw)
    for (ab, ac, rate, wl, rf) in spec["J"]:
        kw = {"rate": rate}
        if wl: kw["weight_label"] = wl
        if rf: kw["rate_function"] = RF_EDGE[rf]
        J.add_edge(tuple(ab), tuple(ac), **kw)
    return G, H, J


def ref_tables(spec, G, bump=0.0):
    """H_edges/J_edges/nodew/edgew for ref.spec_rates."""
    He = []; Je = []; nodew = {}; edgew = {}
    for i, (a, b, rate, wl, rf) in enumerate(spec["H"]):
        key = ("H", i)
        if wl:
            nodew[key] = {u: G.nodes[u][wl] for u in G}
        elif rf:
            nodew[key] = {u: RF_NODE[rf](G, u, bump=bump) if bump else RF_NODE[rf](G, u) for u in G}
        He.append((a, b, rate, key))
    for i, (ab, ac, rate, wl, rf) in enumerate(spec["J"]):
        key = ("J", i)
        pairs = [(u, v) for u in G for v in (G.successors(u) if G.is_directed() else G.neighbors(u))]
        if wl:
            edgew[key] = {(u, v): G[u][v][wl] for (u, v) in pairs}
        elif rf:
            edgew[key] = {(u, v): RF_EDGE[rf](G, u, v, bump=EDGE_BUMP_FACTOR * bump) if bump else RF_EDGE[rf](G, u, v) for (u, v) in pairs}
        Je.append((tuple(ab), tuple(ac), rate, key))
    return He, Je, nodew, edgew


def all_statuses(spec):
    s = []
    for (a, b, *_r) in spec["H"]:
        s += [a, b]
    for (ab, ac, *_r) in spec["J"]:
        s += [ab[0], ab[1], ac[1]]
    s += list(spec["IC"])
    out = []
    for x in s:
        if x not in out:
            out.append(x)
    return sorted(out)


def classify(spec):
    f = ["directed" if spec.get("directed") else "undirected"]
    if any(h[3] or h[4] for h in spec["H"]) or any(j[3] or j[4] for j in spec["J"]):
        f.append("weighted")
    return "+".join(f)


def run_spec(spec, props=("C03",)):
    EoN, sim = import_eon()
    A = Acc()
    fn = "Gillespie_simple_contagion"
    G, H, J = build(spec)
    n = spec["n"]; nodes = list(range(n))
    IC = {v: spec["IC"][v] for v in nodes}
    if spec.get("extra_ic"):
        # an IC written for a larger node set (e.g. the whole graph, while G is one component): entries of nodes that are
        # not in G say nothing about G
        IC[n + 5] = spec["IC"][0]; IC["ghost"] = spec["IC"][-1]; IC[-1] = spec["IC"][0]
    tmin = num(spec.get("tmin", 0)); tmax = num(spec.get("tmax", 3.5))
    full = bool(spec.get("full", False))
    stats = all_statuses(spec)
    if spec.get("ret_subset"):
        stats = stats[:-1] if len(stats) > 1 else stats      # the caller asks for a subset of the statuses only
    bump = spec.get("bump", 0.0)
    cls = classify(spec)
    He, Je, nodew, edgew = ref_tables(spec, G, bump)
    name = spec.get("name", "gen")

    def implied(st):
        imp = {}
        for (a, b, rate, key) in He:
            imp[(a, b)] = {u for u in nodes if st[u] == a}
        for (ab, ac, rate, key) in Je:
            imp[(ab, ac)] = {(u, v) for u in nodes if st[u] == ab[0]
                             for v in (G.successors(u) if G.is_directed() else G.neighbors(u)) if st[v] == ab[1]}
        return imp

    def pol(orc, rate, frame):
        loc = frame.f_locals
        st = loc.get("status")
        if not isinstance(st, dict):
            raise HarnessError("cannot find the simulator's `status` dict")
        orc.ctx["status"] = st
        state = tuple(st[v] for v in nodes)
        pt = loc.get("potential_transitions")
        if isinstance(pt, dict) and "inv" not in orc.ctx:
            imp = implied(st)
            for tr, want in imp.items():
                ld = pt.get(tr)
                got = set(ld.items) if ld is not None else None
                if got != want:
                    orc.ctx["inv"] = (len(orc.marks), tr, sorted(got, key=repr) if got is not None else None, sorted(want, key=repr), state)
                    break
        return 1.0, state

    def call(orc, full_):
        kw = {}
        if bump:
            kw = dict(spont_kwargs={"bump": bump}, nbr_kwargs={"bump": EDGE_BUMP_FACTOR * bump})     # different on purpose
        return EoN.Gillespie_simple_contagion(G, H, J, dict(IC), stats, tmin=tmin, tmax=tmax,
                                              return_full_data=full_, **kw)

    before = [mon.snap(G), mon.snap(H), mon.snap(J)]
    try:
        runs = list(explore(sim, lambda orc: call(orc, full), exp=pol, cap=spec.get("cap", 300000), stats=A.count))
    except CapHit as e:
        A.caps.append(str(e)); return A.result(props)
    A.execs = len(runs); A.selfchecks = A.count.pop("selfchecks", 0)
    if "C19" in props:
        for s, m in mon.c19_compare(before, [mon.snap(G), mon.snap(H), mon.snap(J)], ["G", "spontaneous_transition_graph", "nbr_induced_transition_graph"]):
            A.add(V("C19", fn, cls, s, m))

    def rates(state):
        st = dict(zip(nodes, state))
        R = {}
        for (r, kind, actor, node, new, tr) in spec_rates(G, He, Je, st, nodew, edgew):
            if r > 0:
                t = list(state); t[node] = new; t = tuple(t)
                R[t] = R.get(t, 0.0) + r
        return R

    if "C03" in props:
        def end_label(r):
            if r.exc is not None:
                return ("EXC", type(r.exc).__name__)
            return ("END", tuple(r.ctx["status"][v] for v in nodes))
        segs = segments(runs, end_label=end_label)
        if not segs:
            for r in runs:
                if r.exc is not None:
                    A.add(V("C03", fn, cls, "exception", "%s raised %r (spec %s)" % (fn, r.exc, name), r.chosen()))
                elif sum(rates(tuple(spec["IC"])).values()) > 0 and tmin + 0 < tmax:
                    A.add(V("C03", fn, cls, "never_starts", "no waiting time was ever drawn although the chain can move (spec %s)" % name, r.chosen()))
        for sg in segs:
            st = sg.state
            R = rates(st); RT = sum(R.values())
            A.states.add(st)
            t_after = tmin + sg.ordinal + 1
            if abs(sg.rate - RT) > TOL * max(abs(sg.rate), abs(RT)):     # relative: rates of any magnitude
                A.add(V("C03", fn, cls, "clock_rate", "spec %s state %r: waiting time drawn with rate %r, chain has %r" % (name, st, sg.rate, RT), sg.prefix, sg.rate, RT))
            should_end = (RT <= 0) or (t_after >= tmax)
            succ = {}
            for lf, p in sg.dist.items():
                if lf[0] == "EXC":
                    A.add(V("C03", fn, cls, "exception", "spec %s state %r: raised %s" % (name, st, lf[1]), sg.prefix))
                elif lf[0] == "LIVELOCK":
                    A.add(V("C03", fn, cls, "livelock", "spec %s state %r: selection can never accept" % (name, st), sg.prefix))
                elif lf[0] == "END" and lf[1] == st and not (st in R):
                    if not should_end and p > TOL:
                        A.add(V("C03", fn, cls, "ends_early", "spec %s state %r: run ends without an event with probability %r" % (name, st, p), sg.prefix))
                else:
                    nxt = lf[1]
                    succ[nxt] = succ.get(nxt, 0.0) + p
                    if lf[0] == "END" and sum(rates(nxt).values()) > 0 and t_after + 0 < tmax and nxt != st:
                        A.add(V("C03", fn, cls, "ends_early", "spec %s: after %r -> %r the run stops although the chain can move" % (name, st, nxt), sg.prefix))
            for nxt, p in succ.items():
                A.trans.add((st, nxt))
                if should_end:
                    if nxt != st:
                        A.add(V("C03", fn, cls, "event_after_end", "spec %s state %r: event to %r although the chain has stopped / tmax passed" % (name, st, nxt), sg.prefix))
                    continue
                want = R.get(nxt, 0.0) / RT
                if abs(p - want) > TOL:
                    sym = "extra_event" if want == 0 else "probability"
                    A.add(V("C03", fn, cls, sym, "spec %s state %r -> %r offered with probability %.12g, specification gives %.12g" % (name, st, nxt, p, want), sg.prefix, p, want))
            if not should_end:
                for nxt, r_ in R.items():
                    if r_ > 0 and r_ / RT > 1e-12 and nxt not in succ:
                        A.add(V("C03", fn, cls, "missing_event", "spec %s state %r: enabled transition to %r (rate %r) never offered" % (name, st, nxt, r_), sg.prefix))
    # per execution
    legal_moves = set()
    subset = bool(spec.get("ret_subset"))
    if subset:
        props = tuple(p_ for p_ in props if p_ not in ("C04", "C10"))   # counts of a status subset do not sum to N
    idx = {s: i for i, s in enumerate(stats)}
    for (a, b, *_r) in spec["H"]:
        if a in idx and b in idx:
            legal_moves.add((idx[a], idx[b]))
    for (ab, ac, *_r) in spec["J"]:
        if ab[1] in idx and ac[1] in idx:
            legal_moves.add((idx[ab[1]], idx[ac[1]]))
    legal_hist = {(stats[a], stats[b]) for a, b in legal_moves}
    selfmoves = any(a == b for a, b in legal_moves)
    if selfmoves:
        legal_moves.add(("same", "same"))
    for r in runs:
        pre = r.chosen()
        if "inv" in r.ctx and "C03" in props:
            k, tr, got, want, state = r.ctx["inv"]
            A.add(V("C03", fn, cls, "stale_candidates", "spec %s: after %d events in state %r the candidate set of transition %r is %r, statuses imply %r" % (name, k, state, tr, got, want), pre, got, want))
        if r.cut is not None or r.exc is not None:
            if r.exc is not None and "C04" in props:
                A.add(V("C04", fn, cls, "exception", "%s raised %r" % (fn, r.exc), pre))
            continue
        out = r.out
        b = [m for m in r.marks if m[1] == "exp"]
        if full:
            if subset:
                # the full-data object knows only the requested statuses: compare its per-status counts with the states
                t_, D_ = out.summary()
                arrs = [t_] + [D_[s] for s in stats]
            else:
                t_, D_ = out.summary()
                arrs = [t_] + [D_[s] for s in stats]
        else:
            arrs = list(out)
        A.outcomes.add(hsh([np.asarray(a).tolist() for a in arrs]))
        A.count["rows_checked"] = A.count.get("rows_checked", 0) + 1
        if len(arrs[0]) > 1:
            A.nontrivial.add(pre)
        if "C03" in props and not selfmoves:
            rows = len(arrs[0])
            for j in range(min(rows, len(b))):
                st = b[j][3]
                want = [sum(1 for x in st if x == s) for s in stats]
                got = [int(a[j]) for a in arrs[1:]]
                if got != want or arrs[0][j] != tmin + j:
                    A.add(V("C03", fn, cls, "output_vs_state", "spec %s: row %d is t=%r %r, simulator state %r" % (name, j, arrs[0][j], got, st), pre, got, want))
                    break
        if ("C09" in props or "C03" in props) and full:
            # transmissions vs states: an entry iff the event was neighbour-induced
            try:
                trs = list(out.transmissions())
            except Exception as e:
                trs = None
                A.add(V("C09", fn, cls, "absent", "no transmission list: %r" % (e,), pre))
            if trs is not None:
                bytime = {}
                for (t, u, v) in trs:
                    bytime.setdefault(t, []).append((u, v))
                if [x[0] for x in trs] != sorted(x[0] for x in trs):
                    A.add(V("C09", fn, cls, "order", "transmissions not time-ordered", pre))
                states = [m[3] for m in b]
                if r.ctx.get("status") is not None:
                    states = states + [tuple(r.ctx["status"][v] for v in nodes)]
                for j in range(len(states) - 1):
                    s0, s1 = states[j], states[j + 1]
                    t = tmin + j + 1
                    if t >= tmax:
                        break
                    ch = [v for v in nodes if s0[v] != s1[v]]
                    ent = bytime.get(t, [])
                    if len(ent) > 1:
                        A.add(V("C09", fn, cls, "duplicate", "two transmission entries at %r" % t, pre)); break
                    if ent:
                        u, v = ent[0]
                        okedge = G.has_edge(u, v)
                        okspec = any(tuple(ab) == (s0[u], s0[v]) and ac[1] == s1[v] for (ab, ac, *_r) in spec["J"])
                        if not okedge or not okspec or (ch and ch != [v]):
                            A.add(V("C09", fn, cls, "invalid_entry", "spec %s: entry (%r,%r,%r) with states %r -> %r is not an enabled induced transition along an edge" % (name, t, u, v, s0, s1), pre)); break
                    elif ch:
                        v = ch[0]
                        if not any(a == s0[v] and b_ == s1[v] for (a, b_, *_r) in spec["H"]):
                            A.add(V("C09", fn, cls, "missing_entry", "spec %s: %r changed %r->%r at %r, not a spontaneous transition, but no transmission entry" % (name, v, s0[v], s1[v], t), pre)); break
                if trs and max(x[0] for x in trs) >= tmax:
                    A.add(V("C09", fn, cls, "after_tmax", "transmission at or after tmax", pre))
        if "C04" in props:
            for s, m in mon.c04(arrs, n, tmin, tmax, "spec", moves=legal_moves):
                A.add(V("C04", fn, cls, s, m, pre))
        if "C10" in props and full:
            r2 = run_once(sim, lambda orc: call(orc, False), pre, exp=pol)
            if r2.chosen() != pre:
                A.add(V("C10", fn, cls, "draws_differ", "the two return modes consume different random draws", pre))
            elif r2.exc is not None:
                A.add(V("C10", fn, cls, "exception", "array mode raised %r" % (r2.exc,), pre))
            else:
                for s, m in mon.c10(out, list(r2.out), G, tmin, stats, legal_hist | ({(s_, s_) for s_ in stats} if selfmoves else set())):
                    A.add(V("C10", fn, cls, s, m, pre))
    if runs:
        r = runs[len(runs) // 2]
        A.sample = {"spec": spec, "choices": list(r.chosen()),
                    "states_visited": [list(m[3]) for m in r.marks if m[1] == "exp"][:6]}
    return A.result(props)


# ------------------------------------------------------------------------------------------
# programs
# ------------------------------------------------------------------------------------------

def catalogue():
    c = []
    c.append(("SIS", [["I", "S", 0.7, None, None]], [[["I", "S"], ["I", "I"], 0.3, None, None]], "SI"))
    c.append(("SIR", [["I", "R", 0.7, None, None]], [[["I", "S"], ["I", "I"], 0.3, None, None]], "SIR"))
    c.append(("SIRS", [["I", "R", 0.7, None, None], ["R", "S", 0.2, None, None]], [[["I", "S"], ["I", "I"], 0.3, None, None]], "SIR"))
    c.append(("SEIRw", [["E", "I", 0.6, "nw", None], ["I", "R", 0.1, None, None]], [[["I", "S"], ["I", "E"], 0.3, "ew", None]], "SEIR"))
    c.append(("SIRVrf", [["I", "R", 0.7, None, "deg"], ["S", "V", 0.15, None, "idx"]], [[["I", "S"], ["I", "I"], 0.3, None, "asym"]], "SIRV"))
    c.append(("compete", [["A", "S", 0.5, None, None], ["B", "S", 0.4, None, None]],
              [[["A", "S"], ["A", "A"], 0.3, None, None], [["B", "S"], ["B", "B"], 0.9, "ew", None], [["A", "B"], ["A", "A"], 0.2, None, None]], "SAB"))
    c.append(("coop", [["I", "R", 0.6, None, None], ["J", "R", 0.5, None, None]],
              [[["I", "S"], ["I", "I"], 0.3, None, None], [["J", "S"], ["J", "J"], 0.2, None, None], [["I", "J"], ["I", "I"], 1.1, None, None]], "SIJR"))
    c.append(("two_out", [["I", "R", 0.4, None, None], ["I", "S", 0.3, "nw", None]], [[["I", "S"], ["I", "I"], 0.3, None, None], [["I", "S"], ["I", "R"], 0.2, None, None]], "SIR"))
    c.append(("selfexcite", [], [[["A", "A"], ["A", "B"], 0.3, None, None]], "AB"))
    c.append(("zeroweights", [["I", "S", 0.7, None, "zero1"]], [[["I", "S"], ["I", "I"], 0.3, None, "zero01"]], "SI"))
    c.append(("SIRS_int0", [[2, 0, 0.7, None, None], [0, 1, 0.2, None, None]], [[[2, 1], [2, 2], 0.3, None, None]], [1, 2, 0]))
    c.append(("tinySIR", [["I", "R", 1e-9, None, None]], [[["I", "S"], ["I", "I"], 3e-9, None, None]], "SIR"))     # a slow clock is the same chain
    c.append(("defaultweight", [["I", "R", 0.7, None, None]], [[["I", "S"], ["I", "I"], 0.3, "weight", None]], "SIR"))
    return c


def generated(max_induced=1):
    S = "ABC"
    spont = [None] + [[a, b, 0.7, None, None] for a in S for b in S if a != b]
    ind = [[[a, b], [a, c], 0.3, None, None] for a in S for b in S for c in S if c != b]
    out = []
    for sp in spont:
        for k in range(0, max_induced + 1):
            for js in itertools.combinations(ind, k):
                out.append(("gen", [sp] if sp else [], [list(j) for j in js], S))
    return out


GRAPHS_Q = [(3, [(0, 1), (1, 2)], False), (3, [(0, 1), (1, 2), (0, 2)], False),
            (3, [(0, 1), (1, 2)], True), (3, [(0, 1), (1, 0), (1, 2), (2, 0)], True)]


def specs(tier):
    out = []
    thorough = tier != "quick"
    K = 5 if thorough else 4
    # catalogue on all small undirected graphs and all digraphs on <=3 nodes (quick: a selection)
    und = [(n, es, False) for n, es in gr.small_graphs(3) if es]
    dig = [(n, es, True) for n in (2, 3) for es in (gr.labelled_digraphs(n) if thorough else gr.digraph_shapes(n)) if es]
    extra = [(4, gr.NAMED["C4"][1], False), (4, gr.NAMED["S4"][1], False)]
    # self-loops are legal contact networks: the pair (u,u) is one ordered neighbour pair
    loops = [(3, [(0, 1), (1, 2), (1, 1)], False), (3, [(0, 1), (1, 2), (0, 2), (2, 2), (0, 0)], False),
             (3, [(0, 1), (1, 0), (1, 2), (1, 1)], True), (2, [(0, 1), (0, 0), (1, 1)], True)]
    for (name, Hs, Js, alphabet) in catalogue():
        for (n, es, d) in und + dig + loops + (extra if thorough else []):
            ics = list(itertools.product(alphabet, repeat=n))
            if n >= 4 or (len(alphabet) >= 4 and not thorough):
                ics = [ic for ic in ics if len(set(ic)) >= 2 and sum(1 for x in ic if x == alphabet[0]) >= n - 2]
            for ic in ics:
                for full in ((False, True) if (thorough or len(es) <= 2) else (False,)):
                    out.append(dict(fn="simple", name=name, n=n, edges=es, directed=d, H=Hs, J=Js, IC=list(ic),
                                    tmax=K + 0.5 if n <= 3 else K - 0.5, full=full))
        # kwargs forwarding and shifted/exact horizons on one graph
        if any(h[4] for h in Hs) or any(j[4] for j in Js):
            for ic in itertools.product(alphabet[:2], repeat=3):
                out.append(dict(fn="simple", name=name + "+kwargs", n=3, edges=[(0, 1), (1, 2)], directed=False, H=Hs, J=Js,
                                IC=list(ic), tmax=2.5, bump=0.2, full=False))
        out.append(dict(fn="simple", name=name, n=3, edges=[(0, 1), (1, 2), (0, 2)], directed=False, H=Hs, J=Js,
                        IC=[alphabet[1 % len(alphabet)]] + [alphabet[0]] * 2, tmin=1.5, tmax=3.5, full=True))
        for full in (False, True):
            out.append(dict(fn="simple", name=name + "+extraIC", n=3, edges=[(0, 1), (1, 2)], directed=False, H=Hs, J=Js,
                            IC=[alphabet[1 % len(alphabet)]] + [alphabet[0]] * 2, tmax=3.5, full=full, extra_ic=True))
        # array mode with only a subset of the statuses requested (the full-data object is only defined for complete status lists)
        out.append(dict(fn="simple", name=name + "+subset", n=3, edges=[(0, 1), (1, 2)], directed=False, H=Hs, J=Js,
                        IC=[alphabet[1 % len(alphabet)]] + [alphabet[0]] * 2, tmax=3.5, full=False, ret_subset=True))
    for (name, Hs, Js, alphabet) in generated(2 if thorough else 1):
        for (n, es, d) in GRAPHS_Q:
            for ic in itertools.product(alphabet, repeat=n):
                out.append(dict(fn="simple", name="gen", n=n, edges=es, directed=d, H=Hs, J=Js, IC=list(ic),
                                tmax=(K - 1) + 0.5, full=False))
    return out
