"""Small-scope input enumerators (DESIGN §1.4).  Pure Python, deterministic."""
import itertools
import networkx as nx


def _canon(n, edges):
    best = None
    for perm in itertools.permutations(range(n)):
        e = tuple(sorted(tuple(sorted((perm[u], perm[v]))) for u, v in edges))
        if best is None or e < best:
            best = e
    return best


_SHAPES = {}


def shapes(n, connected=False):
    """All unlabelled simple graphs on n nodes as edge lists over range(n) (11 for n=4, 34 for n=5)."""
    key = n
    if key not in _SHAPES:
        pairs = list(itertools.combinations(range(n), 2))
        seen = {}
        for k in range(len(pairs) + 1):
            for es in itertools.combinations(pairs, k):
                c = _canon(n, es)
                if c not in seen:
                    seen[c] = es
        _SHAPES[key] = [list(v) for v in seen.values()]
    out = _SHAPES[key]
    if connected:
        out = [e for e in out if nx.is_connected(mk(n, e))]
    return out


def labelled(n):
    """All labelled simple graphs on n nodes."""
    pairs = list(itertools.combinations(range(n), 2))
    for k in range(len(pairs) + 1):
        for es in itertools.combinations(pairs, k):
            yield list(es)


def mk(n, edges, directed=False):
    G = nx.DiGraph() if directed else nx.Graph()
    G.add_nodes_from(range(n))
    G.add_edges_from(edges)
    return G


def small_graphs(maxn=3):
    """(n, edges) for all labelled graphs on 1..maxn nodes (1+2+8 = 11 for maxn=3)."""
    out = []
    for n in range(1, maxn + 1):
        for es in labelled(n):
            out.append((n, es))
    return out


def labelled_digraphs(n):
    pairs = [(u, v) for u in range(n) for v in range(n) if u != v]
    for k in range(len(pairs) + 1):
        for es in itertools.combinations(pairs, k):
            yield list(es)


def _dcanon(n, edges):
    best = None
    for perm in itertools.permutations(range(n)):
        e = tuple(sorted((perm[u], perm[v]) for u, v in edges))
        if best is None or e < best:
            best = e
    return best


_DSHAPES = {}


def digraph_shapes(n):
    """All unlabelled simple digraphs on n nodes (3 for n=2, 16 for n=3, 218 for n=4)."""
    if n not in _DSHAPES:
        seen = {}
        for es in labelled_digraphs(n):
            c = _dcanon(n, es)
            if c not in seen:
                seen[c] = es
        _DSHAPES[n] = list(seen.values())
    return _DSHAPES[n]


def trees(n):
    """All unlabelled trees on n nodes as edge lists."""
    if n == 1:
        return [[]]
    seen = {}
    # Pruefer sequences enumerate labelled trees; canonicalise
    for seq in itertools.product(range(n), repeat=n - 2):
        T = nx.from_prufer_sequence(list(seq)) if n > 2 else nx.path_graph(2)
        es = [tuple(sorted(e)) for e in T.edges()]
        c = _canon(n, es) if n <= 7 else None
        if c not in seen:
            seen[c] = sorted(es)
        if n == 2:
            break
    return list(seen.values())


_TREES = {}


def trees_cached(n):
    if n not in _TREES:
        if n <= 6:
            _TREES[n] = trees(n)
        else:
            # canonical form by brute force is too slow beyond 6; use networkx's generator
            _TREES[n] = [sorted(tuple(sorted(e)) for e in T.edges()) for T in nx.nonisomorphic_trees(n)]
    return _TREES[n]


def regular_graphs():
    """Named regular graphs (degree, n, edges)."""
    out = []
    for n in range(3, 9):
        out.append(("C%d" % n, nx.cycle_graph(n)))
    out.append(("K4", nx.complete_graph(4)))
    out.append(("K5", nx.complete_graph(5)))
    out.append(("K33", nx.complete_bipartite_graph(3, 3)))
    out.append(("prism", nx.circular_ladder_graph(3)))
    out.append(("cube", nx.hypercube_graph(3)))
    out.append(("petersen", nx.petersen_graph()))
    out.append(("2C3", nx.disjoint_union(nx.cycle_graph(3), nx.cycle_graph(3))))
    out.append(("K2", nx.complete_graph(2)))
    res = []
    for name, G in out:
        G = nx.convert_node_labels_to_integers(G)
        res.append((name, G.number_of_nodes(), sorted(tuple(sorted(e)) for e in G.edges())))
    return res


NAMED = {
    "P2": (2, [(0, 1)]),
    "P3": (3, [(0, 1), (1, 2)]),
    "K3": (3, [(0, 1), (1, 2), (0, 2)]),
    "P4": (4, [(0, 1), (1, 2), (2, 3)]),
    "S4": (4, [(0, 1), (0, 2), (0, 3)]),
    "C4": (4, [(0, 1), (1, 2), (2, 3), (0, 3)]),
    "K4": (4, [(0, 1), (0, 2), (0, 3), (1, 2), (1, 3), (2, 3)]),
    "paw": (4, [(0, 1), (1, 2), (0, 2), (2, 3)]),
    "diamond": (4, [(0, 1), (1, 2), (2, 3), (0, 3), (0, 2)]),
    "K2+K1": (3, [(0, 1)]),
    "P3+K1": (4, [(0, 1), (1, 2)]),
    "bull": (5, [(0, 1), (1, 2), (0, 2), (1, 3), (2, 4)]),
    "P5": (5, [(0, 1), (1, 2), (2, 3), (3, 4)]),
    "S5": (5, [(0, 1), (0, 2), (0, 3), (0, 4)]),
    "C5": (5, [(0, 1), (1, 2), (2, 3), (3, 4), (0, 4)]),
}


def subsets(items, kmin=0, kmax=None):
    items = list(items)
    if kmax is None:
        kmax = len(items)
    for k in range(kmin, kmax + 1):
        for c in itertools.combinations(items, k):
            yield c


# distinct non-dyadic weights, one zero (a zero-rate link/node must never be selected)
EDGE_W = [0.5, 1.3, 0.2, 0.0, 0.9, 1.7, 0.4, 1.1, 0.6, 2.1]
NODE_W = [1.0, 0.6, 2.5, 0.1, 1.4, 0.8, 0.3]


def weighted(n, edges, ew_label=None, nw_label=None, directed=False, zero=True):
    G = mk(n, edges, directed)
    if ew_label:
        ws = EDGE_W if zero else [w for w in EDGE_W if w > 0]
        for i, (u, v) in enumerate(edges):
            G[u][v][ew_label] = ws[i % len(ws)]
    if nw_label:
        for u in range(n):
            G.nodes[u][nw_label] = NODE_W[u % len(NODE_W)]
    return G
