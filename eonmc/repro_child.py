"""Child process of the C18 check: string node names and statuses, outputs as digests."""
import sys, json, hashlib, random
import numpy as np


def main():
    seed = int(sys.argv[1]); n = int(sys.argv[2])
    from . import import_eon
    from .core import sig
    from .fam_repro import sample_graph, simulators
    EoN, sim = import_eon()
    labels = ["node-%s" % chr(97 + i) for i in range(n)]
    G = sample_graph(n, 5, labels)
    S = ("Sus", "Inf", "Rec")
    out = {}
    for full in (False, True):
        sims = simulators(EoN, G, labels, S=S, full=full)
        for name in sorted(sims):
            if name in ("Gillespie_simple_contagion", "Gillespie_complex_contagion") or not full or True:
                random.seed(seed); np.random.seed(seed)
                o = sims[name]()
                out["%s/full=%s" % (name, full)] = hashlib.sha1(repr(sig(o)).encode()).hexdigest()
    print(json.dumps(out))


if __name__ == "__main__":
    main()
