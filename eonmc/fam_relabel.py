"""Driver family: results depend on structure, not on node names or ordering (C14)."""
import itertools, warnings, random
import numpy as np
import networkx as nx
from . import import_eon
from .common import V, Acc, hsh
from . import graphs as gr
from . import analytic_catalog as cat
from .fam_repro import L
from . import fam_repro as fr

TOL = 1e-5   # solver-tolerance level: a changed summation order changes adaptive step decisions


def labelings(n):
    out = {"reversed": [n - 1 - i for i in range(n)],
           "shifted": [10 + 3 * i for i in range(n)],
           "strings": ["n%s" % chr(122 - i) for i in range(n)],
           "tuples": [(i % 2, -i) for i in range(n)],
           "mixed": [("a", 1), "b", 7, (2, 3), "zz", 0.5, -4, ("q",)][:n],
           "L": [L("v%d" % i, (7 * i + 3) % 8) for i in range(n)],
           "bigint": [1000 + 7 * i for i in range(n)]}
    out["perm"] = [(2 * i + 1) % n if n % 2 else (i + n // 2) % n for i in range(n)]
    if sorted(out["perm"]) != list(range(n)):
        out["perm"] = list(range(1, n)) + [0]
    return out


def cp(x):
    """An equal but not identical label object (as when an edge list is read from a file: every mention of a
    node is a fresh string/tuple/number)."""
    if isinstance(x, tuple):
        return tuple([cp(y) for y in x])
    if isinstance(x, str):
        return "".join(list(x))
    if isinstance(x, bool):
        return x
    if isinstance(x, int):
        return int(str(x))
    if isinstance(x, float):
        return float(repr(x))
    return x


def build(n, edges, labels, node_order, edge_order, fresh=False):
    G = nx.Graph()
    c_ = cp if fresh else (lambda x: x)
    G.add_nodes_from(c_(labels[i]) for i in node_order)
    for k in edge_order:
        u, v = edges[k]
        # attributes are defined on the structure (canonical edge / node), not on labels or order
        G.add_edge(c_(labels[u]), c_(labels[v]), w=0.5 + 0.3 * k)
    for c in range(n):
        G.nodes[c_(labels[c])]["rw"] = 0.6 + 0.25 * c
    return G


def canon_out(name, out, full, G, labels):
    """Output with per-node series re-indexed by canonical node id."""
    inf = cat.info(name)
    res = [np.asarray(out[0], dtype=float)]
    lay = inf["layout"] if (full and inf["hasfull"]) else (["S", "I", "R"] if inf["model"] == "SIR" else ["S", "I"])
    nodes = list(G.nodes())
    pos = {lab: i for i, lab in enumerate(nodes)}
    order = [pos[labels[c]] for c in range(len(labels))]       # canonical id -> row in this output
    for key, x in zip(lay, out[1:]):
        if key in ("Ss", "Is", "Rs", "Xs", "Ys", "Zs"):
            res.append(np.asarray(x, dtype=float)[order, :])
        elif key in ("XY", "XX"):
            a = np.asarray(x, dtype=float)
            res.append(a[np.ix_(order, order)])
        elif key == "thetadict":
            res.append(np.array([np.asarray(x[k], dtype=float) for k in sorted(x)]))
        else:
            res.append(np.asarray(x, dtype=float))
    return res


def sample_graph_fresh(n, seed, labels):
    """fam_repro.sample_graph with every mention of a node being a fresh, equal object (same insertion order)."""
    rng = random.Random(seed)
    G = nx.Graph()
    G.add_nodes_from(cp(x) for x in labels)
    for i in range(n):
        for j in range(i + 1, n):
            if rng.random() < min(1.0, 2.5 / n) or j == i + 1:
                G.add_edge(cp(labels[i]), cp(labels[j]), w=0.2 + rng.random(), weight=0.5 + rng.random())
    for v in labels:
        G.nodes[cp(v)]["rw"] = 0.5 + rng.random()
    return G


def run_identity(spec, props):
    """Seeded runs of every stochastic simulator on a graph whose node objects are shared and on its twin whose
    every node mention is an equal-but-not-identical object: identical outputs (names are compared with ==,
    never with `is`)."""
    EoN, sim = import_eon()
    warnings.filterwarnings("ignore")
    A = Acc()
    n = spec["n"]; labels = labelings(n)[spec["labeling"]]
    Gs = fr.sample_graph(n, spec["gseed"], list(labels))
    Gf = sample_graph_fresh(n, spec["gseed"], list(labels))
    if spec.get("selfloop"):
        Gs.add_edge(labels[1], labels[1], w=0.7, weight=0.9); Gf.add_edge(cp(labels[1]), cp(labels[1]), w=0.7, weight=0.9)
        Gs.add_edge(labels[n - 1], labels[n - 1], w=0.4, weight=1.1); Gf.add_edge(cp(labels[n - 1]), cp(labels[n - 1]), w=0.4, weight=1.1)
    if fr.sig(Gs) != fr.sig(Gf):
        raise RuntimeError("twin graphs differ")
    for full in (False, True):
        sims_s = dict(fr.simulators(EoN, Gs, list(labels), full=full)); sims_s.update(fr.discrete_sims(EoN, Gs, list(labels), full=full))
        fl = [cp(x) for x in labels]
        sims_f = dict(fr.simulators(EoN, Gf, fl, full=full)); sims_f.update(fr.discrete_sims(EoN, Gf, fl, full=full))
        for name in sorted(sims_s):
            for sd in spec["seeds"]:
                try:
                    a, _ = fr.seeded(sims_s[name], sd); b, _ = fr.seeded(sims_f[name], sd)
                except Exception as e:
                    A.add(V("C14", name, "identity:" + spec["labeling"], "exception", "%s raised %s: %s" % (name, type(e).__name__, str(e)[:100]))); break
                A.execs += 2; A.evals += 1
                A.states.add((name, full, sd)); A.nontrivial.add((name, full, sd)); A.trans.add((name, full)); A.outcomes.add(hsh(a))
                if a != b:
                    A.add(V("C14", name, "identity:" + spec["labeling"], "label_dependent",
                            "%s (full=%s, seed %d) on a %d-node graph with %s labels: the seeded output changes when every mention of a node is an equal but not identical object" % (name, full, sd, n, spec["labeling"])))
                    break
    A.sample = {"spec": spec}
    return A.result(props)


def run_spec(spec, props=("C14",)):
    if spec["kind"] == "identity":
        return run_identity(spec, props)
    EoN, sim = import_eon()
    warnings.filterwarnings("ignore")
    np.seterr(all="ignore")
    A = Acc()
    n = spec["n"]; edges = [tuple(e) for e in spec["edges"]]
    ident = list(range(n))
    G0 = build(n, edges, ident, ident, list(range(len(edges))))
    ic0 = spec["ic"]
    variants = []
    labs = labelings(n)
    for lname in spec["labelings"]:
        variants.append((lname, labs[lname], ident, list(range(len(edges)))))
    # the same names, but every mention of a node is an equal-but-not-identical object
    for lname in ("strings", "tuples", "bigint"):
        variants.append((lname + "*fresh", labs[lname], ident, list(range(len(edges)))))
    for no in spec.get("node_orders", []):
        variants.append(("node_order", ident, list(no), list(range(len(edges)))))
    for eo in spec.get("edge_orders", []):
        variants.append(("edge_order", ident, ident, list(eo)))
    for no in spec.get("both_orders", []):
        variants.append(("relabel+order", labs["strings"], list(no), list(reversed(range(len(edges))))))

    def map_ic(ic, labels, fresh=False):
        c_ = cp if fresh else (lambda x: x)
        if ic[0] == "sets":
            return ("sets", [c_(labels[i]) for i in ic[1]], [c_(labels[i]) for i in ic[2]])
        return tuple(ic)
    tau, gamma = spec.get("tau", 0.6), spec.get("gamma", 0.7)
    grid = (0, 2, 5)
    if spec["kind"] == "analytic":
        for name in spec["names"]:
            ic_c = map_ic(ic0, ident)
            if not cat.supports(name, ic_c):
                continue
            inf = cat.info(name)
            for full in ((False, True) if inf["hasfull"] else (False,)):
                for use_nodelist, wts in (((False, None), (True, None), (True, ("w", "rw")), (False, ("w", "rw"))) if inf["node"] else ((False, None),)):
                    tw_, rw_ = wts if wts else (None, None)
                    try:
                        ref = canon_out(name, cat.call(EoN, name, G0, ic_c, tau, gamma, grid, full, tw=tw_, rw=rw_,
                                                       nodelist=(list(G0.nodes()) if use_nodelist else None)), full, G0, ident)
                    except Exception as e:
                        continue        # failures on the canonical labelling belong to C06
                    if not all(np.all(np.isfinite(a)) for a in ref):
                        continue
                    for (vname, labels, no, eo) in variants:
                        fresh = vname.endswith("*fresh")
                        G = build(n, edges, labels, no, eo, fresh=fresh)
                        A.evals += 1
                        tag = "%s(%r, full=%s%s%s) on n=%d edges=%r relabelled %s %r node order %r" % (name, ic_c, full, ", nodelist" if use_nodelist else "", ", weighted" if wts else "", n, edges, vname, labels, no)
                        nl = None
                        if use_nodelist:
                            nl = [(cp(labels[i]) if fresh else labels[i]) for i in reversed(no)]      # an explicit nodelist in yet another order
                        try:
                            o = cat.call(EoN, name, G, map_ic(ic0, labels, fresh), tau, gamma, grid, full, nodelist=nl, tw=tw_, rw=rw_)
                            if nl is not None:
                                # rows follow the given nodelist
                                H = nx.Graph(); H.add_nodes_from(nl)
                                got = canon_out(name, o, full, H, labels)
                            else:
                                got = canon_out(name, o, full, G, labels)
                        except Exception as e:
                            A.add(V("C14", name, vname, "exception", "%s raised %s: %s (the canonical labelling works)" % (tag, type(e).__name__, str(e)[:100])))
                            continue
                        A.states.add((name, full, use_nodelist, bool(wts), vname, hsh((labels, no, eo))))
                        A.nontrivial.add((name, full, use_nodelist, bool(wts), vname, hsh((labels, no, eo))))
                        A.trans.add((name, vname))
                        N = float(n)
                        bad = None
                        if len(got) != len(ref):
                            bad = "different number of outputs"
                        else:
                            for k, (a, b) in enumerate(zip(got, ref)):
                                if a.shape != b.shape:
                                    bad = "output %d has shape %r instead of %r" % (k, a.shape, b.shape); break
                                d = float(np.max(np.abs(a - b))) if a.size else 0.0
                                A.max["max_dev_over_N"] = max(A.max.get("max_dev_over_N", 0.0), (d / N) if np.isfinite(d) else 1e9)
                                if not np.isfinite(d) or d > TOL * N:
                                    bad = "output %d differs by %.3g" % (k, d); break
                        if bad:
                            A.add(V("C14", name, vname, "label_dependent", "%s: %s" % (tag, bad)))
                    A.outcomes.add(hsh(np.round(ref[1], 6).tolist()))
    else:
        # deterministic-rule simulators; rules are tables on canonical node ids (i.e. on the structure)
        rng = random.Random(7)
        Tdelay = {(u, v): 0.3 + 0.11 * u + 0.37 * v + 2.0 ** -(8 + u * n + v) for u in range(n) for v in range(n)}
        Tdur = {u: 0.9 + 0.23 * u + 2.0 ** -(20 + u) for u in range(n)}
        Tcontact = {(u, v): ((u * 3 + v * 5 + u * v) % 3) != 0 for u in range(n) for v in range(n)}
        I0 = ic0[1]; R0 = ic0[2]

        def run_all(G, labels, Tdelay=Tdelay, Tdur=Tdur, suffix="", fresh=False):
            inv = {}
            for c in range(n):
                inv[labels[c]] = c
            outs = {}
            c_ = cp if fresh else (lambda x: x)
            i0 = [c_(labels[i]) for i in I0]; r0 = [c_(labels[i]) for i in R0]
            random.seed(1); np.random.seed(1)
            outs["discrete_SIR"] = EoN.discrete_SIR(G, test_transmission=lambda u, v: Tcontact[(inv[u], inv[v])], initial_infecteds=i0,
                                                   initial_recovereds=r0 or None, return_full_data=True)
            outs["fast_nonMarkov_SIR"] = EoN.fast_nonMarkov_SIR(G, trans_time_fxn=lambda u, v: Tdelay[(inv[u], inv[v])], rec_time_fxn=lambda u: Tdur[inv[u]],
                                                               initial_infecteds=i0, initial_recovereds=r0 or None, return_full_data=True)
            tmx = sorted(Tdelay.values())[len(Tdelay) // 2] + 0.05 if n > 1 else 1.0   # a horizon that cuts some transmissions off
            outs["fast_nonMarkov_SIR[tmax]"] = EoN.fast_nonMarkov_SIR(G, trans_time_fxn=lambda u, v: Tdelay[(inv[u], inv[v])], rec_time_fxn=lambda u: Tdur[inv[u]],
                                                                     initial_infecteds=i0, initial_recovereds=r0 or None, tmax=tmx, return_full_data=True)
            outs["fast_nonMarkov_SIS"] = EoN.fast_nonMarkov_SIS(G, trans_time_fxn=lambda u, v, d: [x for x in (Tdelay[(inv[u], inv[v])], Tdelay[(inv[u], inv[v])] + 0.41) if x < d],
                                                               rec_time_fxn=lambda u: Tdur[inv[u]], initial_infecteds=i0, tmax=4.0, return_full_data=True)
            res = {}
            for k, si in outs.items():
                res[k + suffix] = {inv[v]: (list(si.node_history(v)[0]), list(si.node_history(v)[1])) for v in G.nodes()}
            if not suffix:
                # the degenerate ends of bond percolation are deterministic: p=0 keeps the nodes and no edge, p=1 everything
                for pp in (0, 1, 0.0, 1.0):
                    H = EoN.percolate_network(G, pp)
                    res["percolate_network(p=%r)" % pp] = (sorted(inv[v] for v in H.nodes()), sorted(tuple(sorted((inv[a], inv[b]))) for a, b in H.edges()))
                    si = EoN.percolation_based_discrete_SIR(G, pp, initial_infecteds=i0, initial_recovereds=r0 or None, return_full_data=True)
                    res["percolation_based_discrete_SIR(p=%r)" % pp] = {inv[v]: (list(si.node_history(v)[0]), list(si.node_history(v)[1])) for v in G.nodes()}
                    si = EoN.basic_discrete_SIR(G, pp, initial_infecteds=i0, initial_recovereds=r0 or None, return_full_data=True)
                    res["basic_discrete_SIR(p=%r)" % pp] = {inv[v]: (list(si.node_history(v)[0]), list(si.node_history(v)[1])) for v in G.nodes()}
                    si = EoN.basic_discrete_SIS(G, pp, initial_infecteds=i0, tmax=4, return_full_data=True)
                    res["basic_discrete_SIS(p=%r)" % pp] = {inv[v]: (list(si.node_history(v)[0]), list(si.node_history(v)[1])) for v in G.nodes()}
            return res
        # a second, tie-prone rule set (integer delays and durations: transmissions landing exactly on recoveries,
        # simultaneous infections); the unchanged code is order independent under these too
        Tdelay2 = {(u, v): 1 + ((u + 2 * v) % 2) for u in range(n) for v in range(n)}
        Tdur2 = {u: 1 + (u % 3) for u in range(n)}
        run1 = run_all

        Tdelay3 = {(u, v): 1 + ((u * v + v) % 3) for u in range(n) for v in range(n)}
        Tdur3 = {u: 2 + ((u + 1) % 2) for u in range(n)}
        Tdelay4 = {(u, v): 1 for u in range(n) for v in range(n)}
        Tdur4 = {u: 1 + (u % 2) for u in range(n)}

        def run_all(G, labels, fresh=False):
            a = run1(G, labels, fresh=fresh)
            for k, (td, tu) in enumerate(((Tdelay2, Tdur2), (Tdelay3, Tdur3), (Tdelay4, Tdur4))):
                b = run1(G, labels, td, tu, "[ties%d]" % (k + 1), fresh=fresh)
                b.pop("discrete_SIR[ties%d]" % (k + 1), None)
                a.update(b)
            return a
        ref = run_all(G0, ident)
        for (vname, labels, no, eo) in variants:
            fresh = vname.endswith("*fresh")
            G = build(n, edges, labels, no, eo, fresh=fresh)
            A.evals += 1
            tag = "n=%d edges=%r I0=%r R0=%r relabelled %s %r node order %r edge order %r" % (n, edges, I0, R0, vname, labels, no, eo)
            try:
                got = run_all(G, labels, fresh=fresh)
            except Exception as e:
                A.add(V("C14", "simulators", vname, "exception", "%s raised %s: %s" % (tag, type(e).__name__, str(e)[:100]))); continue
            for k in ref:
                A.states.add((k, vname, hsh((labels, no, eo)))); A.nontrivial.add((k, vname, hsh((labels, no, eo)))); A.trans.add((k, vname))
                if got[k] != ref[k]:
                    A.add(V("C14", k, vname, "label_dependent", "%s: %s per-node histories %r differ from the canonical labelling's %r" % (tag, k, got[k], ref[k])))
        A.outcomes.add(hsh(ref))
    A.execs = A.evals
    A.sample = {"spec": {k: v for k, v in spec.items() if k != "names"}}
    return A.result(props)


def specs(tier, seed=0):
    out = []
    thorough = tier != "quick"
    for lab in ("strings", "tuples", "bigint"):
        for n in ((6, 9) if not thorough else (5, 6, 8, 9, 12)):
            for sl in (False, True):
                out.append(dict(kind="identity", n=n, labeling=lab, gseed=3 + n, selfloop=sl, seeds=[seed + k for k in range(3 if not thorough else 8)]))
    names = [x for x in cat.all_names()]
    gs = [(4, es) for es in gr.shapes(4) if es]
    gs += [(5, es) for es in gr.trees_cached(5)] + [(6, es) for es in (gr.trees_cached(6) if thorough else gr.trees_cached(6)[:2])]
    gs += [(n, es) for (nm, n, es) in gr.regular_graphs() if nm in ("C5", "C6", "K33", "prism")]
    for n, es in gs:
        m = len(es)
        node_orders = [list(p) for p in itertools.permutations(range(n))][1:] if n <= 4 else [list(reversed(range(n)))]
        if n == 4 and not thorough:
            node_orders = node_orders[::3]
        edge_orders = [list(p) for p in itertools.permutations(range(m))][1:] if m <= 4 else [list(reversed(range(m)))]
        if not thorough:
            edge_orders = edge_orders[::4]
        ics = [["rho", 0.3], ["sets", [0], []], ["sets", [1, n - 1], [0]]]
        for ic in ics:
            out.append(dict(kind="analytic", n=n, edges=es, ic=ic, names=names,
                            labelings=["reversed", "shifted", "strings", "tuples", "mixed", "L", "perm"],
                            node_orders=node_orders if ic[0] == "sets" and not ic[2] else node_orders[:2],
                            edge_orders=edge_orders if ic[0] == "rho" else edge_orders[:2], both_orders=node_orders[:1]))
        for ic in (["sets", [0], []], ["sets", [1, n - 1], []], ["sets", [n - 1], [0]]):
            out.append(dict(kind="sim", n=n, edges=es, ic=ic, labelings=["reversed", "shifted", "strings", "tuples", "mixed", "L", "perm"],
                            node_orders=node_orders, edge_orders=edge_orders, both_orders=node_orders[:2]))
    return out
