"""Driver family: Gillespie_SIR / Gillespie_SIS under the choice-point oracle.

Main oracle (C01/C02): in every reached state the clock rate and the successor distribution
equal the reference chain's.  Riders: C04 C05 C09 C10 C19.
"""
import itertools
import numpy as np
from . import import_eon
from .core import explore, run_once, segments, CapHit, HarnessError
from .common import V, Acc, hsh
from .ref import num, INF, sir_sis_rates, absorb
from . import graphs as gr
from . import monitors as mon

TOL = 1e-9


def classify(spec):
    f = []
    if spec.get("tw") or spec.get("rw"):
        f.append("weighted")
    if spec.get("R0"):
        f.append("R0")
    if spec["tau"] == 0 or spec["gamma"] == 0:
        f.append("zerorate")
    return "+".join(f) or "plain"


def make_graph(spec):
    G = gr.weighted(spec["n"], [tuple(e) for e in spec["edges"]], spec.get("tw"), spec.get("rw"))
    if spec.get("zero_first") and spec.get("tw") and spec["edges"]:
        u, v = spec["edges"][0]
        G[u][v][spec["tw"]] = 0.0
    return G


def _state_policy(nodes):
    def pol(orc, rate, frame):
        f = frame
        st = None
        for _ in range(4):
            if f is None:
                break
            st = f.f_locals.get("status")
            if isinstance(st, dict):
                break
            f = f.f_back
        if not isinstance(st, dict):
            raise HarnessError("cannot find the simulator's `status` dict at an event boundary")
        orc.ctx["status"] = st       # the live dict: read again after the run for the final state
        return 1.0, tuple(st.get(v, "S") for v in nodes)
    return pol


def run_default_horizon(spec, props):
    """One scheduled execution with every waiting time equal to `step`: with all optional arguments left out the
    run must stop at the documented default horizon (SIS simulators: tmax=100, tmin=0)."""
    EoN, sim = import_eon()
    A = Acc()
    fn = spec["fn"]; main = "C02"
    G = gr.mk(2, [(0, 1)])
    step = spec["step"]
    pol = lambda orc, rate, frame: (step, None)
    call = {"Gillespie_SIS": lambda orc: EoN.Gillespie_SIS(G, 0.3, 0.7, initial_infecteds=[0]),
            "Gillespie_SIS(positional)": lambda orc: EoN.Gillespie_SIS(G, 0.3, 0.7, [0]),
            "fast_SIS": lambda orc: EoN.fast_SIS(G, 0.3, 0.7, initial_infecteds=[0]),
            "fast_SIS(positional)": lambda orc: EoN.fast_SIS(G, 0.3, 0.7, [0])}[fn]
    # default answers: choice 0 everywhere (any one execution will do: the horizon does not depend on who is chosen)
    r = run_once(sim, call, (), exp=pol)
    A.execs = 1; A.evals = 1; A.states.add((fn, step)); A.trans.add((fn, step)); A.nontrivial.add((fn, step))
    if r.exc is not None:
        A.add(V(main, fn.split("(")[0], "defaults", "exception", "%s with default arguments raised %r" % (fn, r.exc)))
        return A.result(props)
    t = [float(x) for x in np.asarray(r.out[0]).tolist()]
    A.outcomes.add(tuple(t))
    if len(r.out) != 3:
        A.add(V(main, fn.split("(")[0], "defaults", "return_type", "%s with default arguments returned %d arrays, documented: t, S, I" % (fn, len(r.out))))
    if t[0] != 0:
        A.add(V(main, fn.split("(")[0], "defaults", "default_tmin", "%s with default arguments starts at t=%r, documented default tmin=0" % (fn, t[0])))
    if any(x >= 100 for x in t[1:]):
        A.add(V(main, fn.split("(")[0], "defaults", "default_tmax", "%s with default arguments reports an event at %r, documented default tmax=100" % (fn, max(t))))
    elif "Gillespie" in fn and len(t) - 1 != int((100 - 1e-9) // step):
        # Gillespie: every waiting time is `step`, an event is always possible on K2 while someone is infected or susceptible
        if float(np.asarray(r.out[2])[-1]) > 0:
            A.add(V(main, fn.split("(")[0], "defaults", "default_tmax", "%s with default arguments and waiting times %r reports %d events (last at %r) although the infection is alive: documented default tmax=100" % (fn, step, len(t) - 1, t[-1])))
    A.sample = {"spec": spec, "times": t[:6]}
    return A.result(props)


def run_spec(spec, props=("C01", "C02")):
    if spec.get("kind") == "default_horizon":
        return run_default_horizon(spec, props)
    EoN, sim = import_eon()
    A = Acc()
    fn = spec["fn"]; sis = fn.endswith("SIS")
    main = "C02" if sis else "C01"
    G = make_graph(spec)
    n = spec["n"]; nodes = list(range(n))
    tau = spec["tau"]; gamma = spec["gamma"]; tw = spec.get("tw"); rw = spec.get("rw")
    I0 = list(spec["I0"]); R0 = list(spec.get("R0", []))
    tmin = num(spec.get("tmin", 0)); tmax = num(spec.get("tmax", "inf"))
    full = bool(spec.get("full", False))
    cls = classify(spec)
    i0_arg = I0[0] if spec.get("i0_single") and len(I0) == 1 else I0
    # numeric arguments given as Python ints / numpy scalars mean the same numbers
    at = spec.get("argtype")
    cast = {None: (lambda x: x), "int": (lambda x: x if x in (INF, -INF) else int(x)), "np": np.float64,
            "npint": (lambda x: x if x in (INF, -INF) else np.int64(x))}[at]
    tau_a, gamma_a, tmin_a, tmax_a = cast(tau), cast(gamma), cast(tmin), cast(tmax)
    if at:
        cls = cls + "+argtype:" + at

    def call(orc, full_):
        kw = dict(initial_infecteds=(i0_arg if not isinstance(i0_arg, list) else list(i0_arg)),
                  tmin=tmin_a, tmax=tmax_a, transmission_weight=tw,
                  recovery_weight=rw, return_full_data=full_)
        if not sis and R0:
            kw["initial_recovereds"] = list(R0)
        if spec.get("defaults"):
            # every optional argument left at its documented default (tmin=0, tmax=inf (SIR) / 100 (SIS), no weights, arrays)
            for k_ in ("tmin", "tmax", "transmission_weight", "recovery_weight"):
                kw.pop(k_)
            if not full_:
                kw.pop("return_full_data")
        return getattr(EoN, fn)(G, tau_a, gamma_a, **kw)

    before = mon.snap(G) if "C19" in props else None
    pol = _state_policy(nodes)
    try:
        runs = list(explore(sim, lambda orc: call(orc, full), exp=pol, cap=spec.get("cap", 300000), stats=A.count,
                            zero_draws=bool(spec.get("zero_draws"))))
    except CapHit as e:
        A.caps.append(str(e)); return A.result(props)
    A.execs = len(runs)
    A.selfchecks = A.count.pop("selfchecks", 0)
    if before is not None:
        for s, m in mon.c19_compare([before], [mon.snap(G)], ["G"]):
            A.add(V("C19", fn, cls, s, m))

    rates = lambda st: sir_sis_rates(G, st, tau, gamma, tw, rw, sis)
    s_init = tuple("I" if v in I0 else ("R" if v in R0 else "S") for v in nodes)

    # ---- main oracle: per reached state ------------------------------------------------
    if main in props:
        def end_label(r):
            if r.exc is not None:
                return ("EXC", type(r.exc).__name__)
            return ("END", tuple(r.ctx["status"].get(v, "S") for v in nodes))
        segs = segments(runs, end_label=end_label)
        if not segs:
            for r in runs:
                if r.exc is not None:
                    A.add(V(main, fn, cls, "exception", "%s raised %r" % (fn, r.exc), r.chosen()))
        for sg in segs:
            st = sg.state
            R = rates(st); RT = sum(R.values())
            A.states.add(st)
            t_after = tmin + (sg.ordinal + 1)  # clock value after this waiting time (delta = 1)
            if sg.ordinal == 0 and st != s_init:
                A.add(V(main, fn, cls, "initial_state", "simulation starts in %r, request means %r" % (st, s_init), sg.prefix, st, s_init))
            if abs(sg.rate - RT) > TOL * max(abs(sg.rate), abs(RT)):     # relative: rates of any magnitude
                A.add(V(main, fn, cls, "clock_rate", "state %r: waiting time drawn with rate %r, chain has total rate %r" % (st, sg.rate, RT), sg.prefix, sg.rate, RT))
            should_end = (RT <= 0) or (t_after >= tmax)
            succ = {}
            for lf, p in sg.dist.items():
                if lf[0] == "EXC":
                    A.add(V(main, fn, cls, "exception", "state %r: %s raised %s" % (st, fn, lf[1]), sg.prefix))
                elif lf[0] == "LIVELOCK":
                    A.add(V(main, fn, cls, "livelock", "state %r: selection can never accept" % (st,), sg.prefix))
                elif lf[0] == "END" and lf[1] == st:
                    if not should_end and p > TOL:
                        A.add(V(main, fn, cls, "ends_early", "state %r (rate %r, t=%r<tmax=%r): run ends without an event with probability %r" % (st, RT, t_after, tmax, p), sg.prefix, p, 0.0))
                else:
                    nxt = lf[1]
                    succ[nxt] = succ.get(nxt, 0.0) + p
                    if lf[0] == "END" and sum(rates(nxt).values()) > 0:
                        A.add(V(main, fn, cls, "ends_early", "after %r -> %r the run ends without drawing a waiting time although the chain can still move" % (st, nxt), sg.prefix))
            for nxt, p in succ.items():
                A.trans.add((st, nxt))
                if should_end:
                    A.add(V(main, fn, cls, "event_after_end", "state %r: event to %r although the chain has stopped / tmax passed" % (st, nxt), sg.prefix))
                    continue
                want = R.get(nxt, 0.0) / RT
                if abs(p - want) > TOL:
                    sym = "extra_event" if want == 0 else "probability"
                    A.add(V(main, fn, cls, sym, "state %r -> %r offered with probability %.12g, chain says %.12g" % (st, nxt, p, want), sg.prefix, p, want))
            if not should_end:
                for nxt, r_ in R.items():
                    if r_ > 0 and nxt not in succ:
                        A.add(V(main, fn, cls, "missing_event", "state %r: successor %r (rate %r) is never offered" % (st, nxt, r_), sg.prefix, 0.0, r_ / RT))
        # end-to-end arithmetic check of the aggregator (no closed loops, unbounded horizon)
        if not sis and tmax == INF and all(r.cut is None and r.exc is None for r in runs):
            fin = {}
            mass = 0.0
            for r in runs:
                p = r.prob(); mass += p
                out = r.out
                Rfin = int(out.R()[-1]) if full else int(out[3][-1])
                fin[Rfin] = fin.get(Rfin, 0.0) + p
            ref = {}
            for f, p in absorb(rates, s_init).items():
                k = sum(1 for x in f if x == "R")
                ref[k] = ref.get(k, 0.0) + p
            if abs(mass - 1.0) > 1e-9:
                raise HarnessError("path probabilities sum to %r" % mass)
            for k in set(fin) | set(ref):
                if abs(fin.get(k, 0.0) - ref.get(k, 0.0)) > 1e-9:
                    A.add(V(main, fn, cls, "final_size", "P(final R=%d)=%.12g, master equation gives %.12g" % (k, fin.get(k, 0.0), ref.get(k, 0.0)), (), fin, ref))
                    break

    # ---- per execution: cross-check of states with outputs, riders -----------------------
    statuses = ["S", "I"] if sis else ["S", "I", "R"]
    legal = {("S", "I"), ("I", "S")} if sis else {("S", "I"), ("I", "R")}
    for r in runs:
        if r.cut is not None:
            continue
        if r.exc is not None:
            if "C04" in props:
                A.add(V("C04", fn, cls, "exception", "%s raised %r instead of returning" % (fn, r.exc), r.chosen()))
            continue
        out = r.out
        b = [m for m in r.marks if m[1] == "exp"]
        if full:
            arrs = [out.t()] + [out.summary()[1][s] for s in statuses]
        else:
            arrs = list(out)
        A.outcomes.add(hsh([a.tolist() for a in arrs]))
        A.count["rows_checked"] = A.count.get("rows_checked", 0) + 1
        if len(arrs[0]) > 1:
            A.nontrivial.add(hsh((r.chosen(),)))
        if main in props:
            # every event of every execution - including executions of probability zero (a uniform draw equal to
            # exactly 0.0, explored when the spec asks for it) - must be a positive-rate transition of the chain
            sts = [m[3] for m in b] + ([tuple(r.ctx["status"].get(v, "S") for v in nodes)] if r.ctx.get("status") is not None else [])
            for s0, s1 in zip(sts, sts[1:]):
                if s1 != s0 and rates(s0).get(s1, 0.0) <= 0:
                    A.add(V(main, fn, cls, "zero_rate_event", "event %r -> %r happened although its rate is zero" % (s0, s1), r.chosen()))
                    break
            rows = len(arrs[0])
            if rows not in (len(b), len(b) + 1):
                A.add(V(main, fn, cls, "rows_vs_events", "%d rows but %d waiting times drawn" % (rows, len(b)), r.chosen()))
            for j in range(min(rows, len(b))):
                st = b[j][3]
                want = [sum(1 for x in st if x == s) for s in statuses]
                got = [int(a[j]) for a in arrs[1:]]
                if got != want or arrs[0][j] != tmin + j:
                    A.add(V(main, fn, cls, "output_vs_state", "row %d is t=%r %r but the simulator state is %r at t=%r" % (j, arrs[0][j], got, st, tmin + j), r.chosen(), got, want))
                    break
            if full and not A.viol:
                for j in range(min(rows, len(b))):
                    st = b[j][3]
                    hs = out.get_statuses(time=tmin + j)
                    if tuple(hs[v] for v in nodes) != st:
                        A.add(V(main, fn, cls, "history_vs_state", "node statuses at t=%r are %r, simulator state %r" % (tmin + j, hs, st), r.chosen()))
                        break
        if "C04" in props:
            gam_pos = gamma > 0 and all((G.nodes[v][rw] if rw else 1) > 0 for v in nodes)
            for s, m in mon.c04(arrs, n, tmin, tmax, "SIS" if sis else "SIR",
                                moves=mon.SIS_MOVES if sis else mon.SIR_MOVES,
                                must_die_out=(tmax == INF and gam_pos)):
                A.add(V("C04", fn, cls, s, m, r.chosen()))
        if "C05" in props:
            if not full:
                for s, m in mon.c05_arrays(arrs, n, tmin, I0, R0, not sis, G=G):
                    A.add(V("C05", fn, cls, s, m, r.chosen()))
            else:
                for s, m in mon.c05_full(out, nodes, tmin, I0, R0, not sis):
                    A.add(V("C05", fn, cls, s, m, r.chosen()))
        if "C09" in props and full:
            for s, m in mon.c09(out, G, tmin, I0, "SIS" if sis else "SIR"):
                A.add(V("C09", fn, cls, s, m, r.chosen()))
        if "C10" in props and full:
            r2 = run_once(sim, lambda orc: call(orc, False), r.chosen(), exp=pol)
            if r2.chosen() != r.chosen() or len(r2.trace) != len(r.trace):
                A.add(V("C10", fn, cls, "draws_differ", "the two return modes consume different random draws", r.chosen()))
            elif r2.exc is not None:
                A.add(V("C10", fn, cls, "exception", "array mode raised %r" % (r2.exc,), r.chosen()))
            else:
                for s, m in mon.c10(out, list(r2.out), G, tmin, statuses, legal):
                    A.add(V("C10", fn, cls, s, m, r.chosen()))
    if A.sample is None and runs:
        r = runs[len(runs) // 2]
        A.sample = {"spec": spec, "choices": list(r.chosen()), "kinds": [t[0] for t in r.trace][:40],
                    "cut_by_loop_closure": r.cut is not None,
                    "output": None if r.out is None or full else [a.tolist() for a in r.out]}
    return A.result(props)


# ------------------------------------------------------------------------------------------
# spec enumeration
# ------------------------------------------------------------------------------------------

RATES_MAIN = (0.3, 0.7)
RATES_ALL = [(t, g) for t in (0.0, 0.3, 1.1) for g in (0.0, 0.7, 1.0)]
WMODES = [(None, None), ("w", None), (None, "rw"), ("w", "rw")]


def _graphs(tier):
    gs = [(n, es) for n, es in gr.small_graphs(3)]
    if tier == "quick":
        gs += [gr.NAMED[k] for k in ("P4", "S4", "C4", "paw", "K4")]
    else:
        gs += [(4, es) for es in gr.shapes(4)]
        gs += [gr.NAMED[k] for k in ("bull", "P5", "S5")]
    return gs


def specs_sir(tier):
    out = []
    thorough = tier != "quick"
    for n, es in _graphs(tier):
        nodes = range(n)
        big = n >= 5
        for (tw, rw) in WMODES:
            if big and (tw, rw) not in ((None, None), ("w", "rw")):
                continue
            if not es and tw:
                continue
            for I0 in gr.subsets(nodes, 1, n if thorough and not big else min(2, n)):
                rest = [v for v in nodes if v not in I0]
                for R0 in gr.subsets(rest, 0, (2 if thorough else 1) if not big else 0):
                    for full in (False, True):
                        if full and (len(I0) > 1 or len(R0) > 1) and not thorough:
                            continue
                        out.append(dict(fn="Gillespie_SIR", n=n, edges=es, tw=tw, rw=rw, tau=RATES_MAIN[0],
                                        gamma=RATES_MAIN[1], I0=list(I0), R0=list(R0), full=full))
        # rate grid incl. zeros on the unweighted and the fully weighted path
        for (tw, rw) in ((None, None), ("w", "rw")):
            if not es and tw:
                continue
            for (tau, gamma) in RATES_ALL:
                if (tau, gamma) == RATES_MAIN:
                    continue
                for I0 in gr.subsets(nodes, 1, 1 if not thorough else min(2, n)):
                    if big and I0[0] > 1:
                        continue
                    out.append(dict(fn="Gillespie_SIR", n=n, edges=es, tw=tw, rw=rw, tau=tau, gamma=gamma,
                                    I0=list(I0), R0=[], full=False, i0_single=True))
        # finite horizons: an event lands exactly on tmax / between events; tmin shifted
        for (tw, rw) in ((None, None), ("w", "rw")):
            if (not es and tw) or big:
                continue
            for tmin, tmax in ((0, 2), (0, 2.5), (1.5, 3.5), (-2, 1), (2, 1), (1.5, 1.5)):      # incl. an empty window (tmax <= tmin): nothing is reported but the start
                for I0 in gr.subsets(nodes, 1, 1):
                    for full in (False, True):
                        out.append(dict(fn="Gillespie_SIR", n=n, edges=es, tw=tw, rw=rw, tau=1.1, gamma=0.7,
                                        I0=list(I0), R0=[], tmin=tmin, tmax=tmax, full=full))
    # self-loops (legal in networkx; a node can never infect itself)
    for (n, es) in ((3, [(0, 1), (1, 2), (1, 1), (0, 0)]), (3, [(0, 1), (1, 2), (0, 2), (2, 2)])):
        for (tw, rw) in ((None, None), ("w", "rw")):
            for I0 in gr.subsets(range(n), 1, 2):
                for full in (False, True):
                    out.append(dict(fn="Gillespie_SIR", n=n, edges=es, tw=tw, rw=rw, tau=0.3, gamma=0.7, I0=list(I0), R0=[], full=full))
    out += _argtype_specs("Gillespie_SIR")
    out += _tiny_rate_specs("Gillespie_SIR")
    out += _default_specs("Gillespie_SIR")
    # probability-zero outcomes of the uniform draws (exactly 0.0): zero-weight links/nodes must NEVER be chosen
    for (n, es) in (gr.NAMED["K3"], gr.NAMED["P3"]):
        for I0 in gr.subsets(range(n), 1, 1):
            out.append(dict(fn="Gillespie_SIR", n=n, edges=es, tw="w", rw="rw", tau=0.3, gamma=0.7, I0=list(I0), R0=[], full=False,
                            zero_draws=True, zero_first=True))
    return out


def _tiny_rate_specs(fn):
    """rates of order 1e-9: the chain is the same chain on a slower clock (no absolute threshold on rates)"""
    out = []
    for (n, es) in (gr.NAMED["K3"], gr.NAMED["P3"], gr.NAMED["P4"]):
        for (tw, rw) in ((None, None), ("w", "rw")):
            for (tau, gamma) in ((2e-9, 1e-9), (1e-9, 0.0), (3e-8, 2e-8)):
                for I0 in ([0], [1]):
                    for full in (False, True):
                        sp = dict(fn=fn, n=n, edges=es, tw=tw, rw=rw, tau=tau, gamma=gamma, I0=I0, R0=[], full=full)
                        if fn.endswith("SIS"):
                            sp.update(tmin=0, tmax=3.5)
                        out.append(sp)
    return out


def _default_specs(fn):
    """calls that leave tmin/tmax/weights/return_full_data at their defaults"""
    out = []
    sis = fn.endswith("SIS")
    for (n, es) in (gr.NAMED["K3"], gr.NAMED["P3"]):
        for (tau, gamma) in (((0.0, 0.7),) if sis else ((0.3, 0.7), (1.1, 0.0))):     # SIS: documented tmax=100, so only runs that die out
            for I0 in ([0], [1], [0, 2]):
                for full in (False, True):
                    out.append(dict(fn=fn, n=n, edges=es, tw=None, rw=None, tau=tau, gamma=gamma, I0=I0, R0=[], tmin=0,
                                    tmax=(100 if sis else "inf"), full=full, defaults=True))
    return out


def _argtype_specs(fn):
    """rates and times passed as Python ints / numpy scalars (also integer-valued ones, also zero)"""
    out = []
    for (n, es) in (gr.NAMED["K3"], gr.NAMED["P3"]):
        for (tw, rw) in ((None, None), ("w", "rw")):
            for at, tau, gamma, tmin, tmax in (("int", 1, 2, 0, 2), ("int", 2, 1, -1, 1), ("int", 0, 1, 0, 2), ("int", 1, 0, 0, 2),
                                               ("npint", 1, 2, 0, 2), ("npint", 1, 0, 1, 3),
                                               ("np", 0.3, 0.7, 0, 2.5), ("np", 1.1, 0.0, 1.5, 3.5), ("np", 0.0, 0.7, 0, 2)):
                for I0 in ([0], [1]):
                    for full in (False, True):
                        out.append(dict(fn=fn, n=n, edges=es, tw=tw, rw=rw, tau=tau, gamma=gamma, I0=I0, R0=[], tmin=tmin, tmax=tmax,
                                        full=full, argtype=at))
    return out


def specs_sis(tier):
    out = []
    thorough = tier != "quick"
    K = 6 if thorough else 5
    for n, es in _graphs(tier):
        nodes = range(n)
        big = n >= 5
        kk = K if n <= 3 else (K - 1 if n == 4 else K - 2)
        for (tw, rw) in WMODES:
            if not es and tw:
                continue
            if (big or (not thorough and n == 4)) and (tw, rw) not in ((None, None), ("w", "rw")):
                continue
            for I0 in gr.subsets(nodes, 1, n):     # every non-empty infected set is a start state
                for full in (False, True):
                    if full and len(I0) > 1 and not thorough:
                        continue
                    for (tau, gamma) in ([RATES_MAIN] if (tw, rw) not in ((None, None), ("w", "rw")) or full else
                                         ([RATES_MAIN, (1.1, 1.0), (0.0, 0.7), (0.3, 0.0)] if not thorough else RATES_ALL)):
                        if (tau, gamma) != RATES_MAIN and len(I0) > 1 and not thorough:
                            continue
                        out.append(dict(fn="Gillespie_SIS", n=n, edges=es, tw=tw, rw=rw, tau=tau, gamma=gamma,
                                        I0=list(I0), tmin=0, tmax=kk + 0.5, full=full))
        if n == 3 and len(es) >= 2:
            for I0 in gr.subsets(nodes, 1, 1):
                out.append(dict(fn="Gillespie_SIS", n=n, edges=es, tw="w", rw="rw", tau=0.3, gamma=0.7, I0=list(I0), tmin=0, tmax=3.5,
                                full=False, zero_draws=True, zero_first=True))
            for (tw, rw) in ((None, None), ("w", "rw")):
                for I0 in gr.subsets(nodes, 1, 2):
                    out.append(dict(fn="Gillespie_SIS", n=n, edges=list(es) + [(1, 1), (0, 0)], tw=tw, rw=rw, tau=0.3, gamma=0.7, I0=list(I0),
                                    tmin=0, tmax=4.5, full=(len(I0) == 1)))
        # exact hit of tmax and shifted tmin
        for tmin, tmax in ((0, 3), (1.5, 4.5), (-2, 0.5), (2, 1), (1.5, 1.5)):
            for I0 in gr.subsets(nodes, 1, 1):
                for full in (False, True):
                    out.append(dict(fn="Gillespie_SIS", n=n, edges=es, tw=None, rw=None, tau=0.3, gamma=0.7,
                                    I0=list(I0), tmin=tmin, tmax=tmax, full=full))
    out += _argtype_specs("Gillespie_SIS")
    out += _tiny_rate_specs("Gillespie_SIS")
    out += _default_specs("Gillespie_SIS")
    for f_ in ("Gillespie_SIS", "Gillespie_SIS(positional)"):
        for st in (30.0, 7.0, 99.5):
            out.append(dict(kind="default_horizon", fn=f_, step=st))
    return out
