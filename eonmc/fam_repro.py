"""Driver family: reproducibility from the seeds (C18).

(i)   real RNGs seeded identically: every simulator twice in one process -> identical output;
      full data on/off where the draws do not depend on the flag -> same arrays;
      other entropy sources (os.urandom, time.time, SystemRandom, default_rng) are poisoned.
(iii) ALL hash orders: node labels / statuses of class L with harness-assigned hashes; every
      one of the n! assignments must give the same output (the exhaustive part).
(iv)  sub-processes with different PYTHONHASHSEED, string node names and statuses.
"""
import os, sys, json, random, itertools, subprocess, hashlib, time as _time
import numpy as np
import networkx as nx
from collections import defaultdict
from . import import_eon, VERIF_ROOT
from .core import sig, HarnessError
from .common import V, Acc, hsh


class L(object):
    """Label with a programmable hash: sets of L iterate in an order the harness chooses."""
    __slots__ = ("name", "h")

    def __init__(self, name, h): self.name = name; self.h = h
    def __hash__(self): return self.h
    def __eq__(self, o): return isinstance(o, L) and o.name == self.name
    def __lt__(self, o): return self.name < o.name
    def __le__(self, o): return self.name <= o.name
    def __gt__(self, o): return self.name > o.name
    def __ge__(self, o): return self.name >= o.name
    def __repr__(self): return "L(%s)" % (self.name,)


def sample_graph(n, seed, labels=None):
    rng = random.Random(seed)
    G = nx.Graph()
    nodes = labels if labels is not None else list(range(n))
    G.add_nodes_from(nodes)
    for i in range(n):
        for j in range(i + 1, n):
            if rng.random() < min(1.0, 2.5 / n) or j == i + 1:
                G.add_edge(nodes[i], nodes[j], w=0.2 + rng.random(), weight=0.5 + rng.random())
    for v in nodes:
        G.nodes[v]["rw"] = 0.5 + rng.random()
    return G


def simulators(EoN, G, nodes, S=("S", "I", "R"), full=False):
    """name -> thunk using only `random` / `numpy.random` (already seeded by the caller)."""
    S_, I_, R_ = S
    i0 = [nodes[0], nodes[len(nodes) // 2]]
    sims = {}
    sims["Gillespie_SIR"] = lambda: EoN.Gillespie_SIR(G, 0.8, 0.7, initial_infecteds=i0, return_full_data=full)
    sims["Gillespie_SIR_w"] = lambda: EoN.Gillespie_SIR(G, 0.8, 0.7, initial_infecteds=i0, transmission_weight="w", recovery_weight="rw", return_full_data=full)
    sims["Gillespie_SIR_rho"] = lambda: EoN.Gillespie_SIR(G, 0.8, 0.7, rho=0.3, return_full_data=full)
    sims["Gillespie_SIS"] = lambda: EoN.Gillespie_SIS(G, 0.8, 0.7, initial_infecteds=i0, tmax=4, return_full_data=full)
    sims["Gillespie_SIS_w"] = lambda: EoN.Gillespie_SIS(G, 0.8, 0.7, initial_infecteds=i0, tmax=4, transmission_weight="w", recovery_weight="rw", return_full_data=full)
    sims["fast_SIR"] = lambda: EoN.fast_SIR(G, 0.8, 0.7, initial_infecteds=i0, return_full_data=full)
    sims["fast_SIR_w"] = lambda: EoN.fast_SIR(G, 0.8, 0.7, initial_infecteds=i0, transmission_weight="w", recovery_weight="rw", return_full_data=full)
    r0 = [nodes[1], nodes[-1]]
    i3 = [nodes[0], nodes[len(nodes) // 2], nodes[2]]
    sims["Gillespie_SIR_R0"] = lambda: EoN.Gillespie_SIR(G, 0.8, 0.7, initial_infecteds=i3, initial_recovereds=r0, return_full_data=full)
    sims["fast_SIR_R0"] = lambda: EoN.fast_SIR(G, 0.8, 0.7, initial_infecteds=i3, initial_recovereds=r0, return_full_data=full)
    sims["fast_SIR_w_R0"] = lambda: EoN.fast_SIR(G, 0.8, 0.7, initial_infecteds=i3, initial_recovereds=r0, transmission_weight="w", return_full_data=full)
    sims["fast_SIS"] = lambda: EoN.fast_SIS(G, 0.8, 0.7, initial_infecteds=i0, tmax=4, return_full_data=full)
    sims["fast_SIS_w"] = lambda: EoN.fast_SIS(G, 0.8, 0.7, rho=0.3, tmax=4, transmission_weight="w", recovery_weight="rw", return_full_data=full)
    sims["fast_nonMarkov_SIR"] = lambda: EoN.fast_nonMarkov_SIR(G, trans_time_fxn=lambda u, v: random.expovariate(0.8), rec_time_fxn=lambda u: 1.0 + random.random(), initial_infecteds=i0, return_full_data=full)
    sims["fast_nonMarkov_SIS"] = lambda: EoN.fast_nonMarkov_SIS(G, trans_time_fxn=lambda u, v, d: sorted(random.random() * d for _ in range(2)), rec_time_fxn=lambda u: 0.5 + random.random(), initial_infecteds=i0, tmax=3, return_full_data=full)
    H = nx.DiGraph(); H.add_edge(I_, R_, rate=0.7); H.add_edge(R_, S_, rate=0.3, weight_label="rw")
    J = nx.DiGraph(); J.add_edge((I_, S_), (I_, I_), rate=0.8, weight_label="w")
    IC = defaultdict(lambda: S_)
    for v in i0:
        IC[v] = I_
    sims["Gillespie_simple_contagion"] = lambda: EoN.Gillespie_simple_contagion(G, H, J, IC, (S_, I_, R_), tmax=4, return_full_data=full)

    # the same model on a directed version of the graph (both orientations of every edge plus a few one-way edges)
    DG = nx.DiGraph()
    DG.add_nodes_from(G.nodes(data=True))
    for k, (u, v, d) in enumerate(G.edges(data=True)):
        DG.add_edge(u, v, **d)
        if k % 3:
            DG.add_edge(v, u, **d)
    sims["Gillespie_simple_contagion_directed"] = lambda: EoN.Gillespie_simple_contagion(DG, H, J, IC, (S_, I_, R_), tmax=4, return_full_data=full)

    def rate_function(G_, node, status, parameters):
        if status[node] == S_:
            return 0.8 * sum(1 for nb in G_.neighbors(node) if status[nb] == I_)
        return 0.7 if status[node] == I_ else 0.0
    sims["Gillespie_complex_contagion"] = lambda: EoN.Gillespie_complex_contagion(
        G, rate_function, lambda G_, node, status, parameters: I_ if status[node] == S_ else R_,
        lambda G_, node, status, parameters: list(G_.neighbors(node)), IC, (S_, I_, R_), tmax=50, return_full_data=full)
    # the initial condition as a plain dict covering every node (the same object is reused by the repeated calls)
    ICd = {v: (I_ if v in i0 else S_) for v in nodes}
    sims["Gillespie_simple_contagion_dictIC"] = lambda: EoN.Gillespie_simple_contagion(G, H, J, ICd, (S_, I_, R_), tmax=4, return_full_data=full)
    sims["Gillespie_complex_contagion_dictIC"] = lambda: EoN.Gillespie_complex_contagion(
        G, rate_function, lambda G_, node, status, parameters: I_ if status[node] == S_ else R_,
        lambda G_, node, status, parameters: list(G_.neighbors(node)), ICd, (S_, I_, R_), tmax=50, return_full_data=full)
    return sims


def discrete_sims(EoN, G, nodes, full=False):
    i0 = [nodes[0], nodes[len(nodes) // 2]]
    sims = {}
    sims["discrete_SIR"] = lambda: EoN.discrete_SIR(G, args=(0.5,), initial_infecteds=i0, return_full_data=full)
    sims["basic_discrete_SIR"] = lambda: EoN.basic_discrete_SIR(G, 0.5, initial_infecteds=i0, return_full_data=full)
    sims["basic_discrete_SIS"] = lambda: EoN.basic_discrete_SIS(G, 0.5, initial_infecteds=i0, tmax=5, return_full_data=full)
    sims["percolation_based_discrete_SIR"] = lambda: EoN.percolation_based_discrete_SIR(G, 0.5, initial_infecteds=i0, return_full_data=full)
    sims["estimate_SIR_prob_size"] = lambda: EoN.estimate_SIR_prob_size(G, 0.5)
    sims["estimate_directed_SIR_prob_size"] = lambda: EoN.estimate_directed_SIR_prob_size(G, 0.8, 0.7)
    sims["get_infected_nodes"] = lambda: sorted(EoN.get_infected_nodes(G, 0.8, 0.7, initial_infecteds=i0), key=repr)
    sims["percolate_network"] = lambda: EoN.percolate_network(G, 0.5)
    sims["directed_percolate_network"] = lambda: EoN.directed_percolate_network(G, 0.8, 0.7)
    return sims


class Poison(object):
    """Other entropy sources raise while the code under test runs (only when the caller is EoN)."""

    def __enter__(self):
        import time, os as _os
        self.saved = (time.time, _os.urandom, random.SystemRandom, np.random.default_rng, time.time_ns, time.perf_counter)

        def guard(orig, name):
            def g(*a, **k):
                f = sys._getframe(1)
                fn = f.f_code.co_filename
                if os.sep + "EoN" + os.sep in fn and "tests" not in fn:
                    raise RuntimeError("EoN used entropy source %s" % name)
                return orig(*a, **k)
            return g
        time.time = guard(time.time, "time.time"); _os.urandom = guard(_os.urandom, "os.urandom")
        np.random.default_rng = guard(np.random.default_rng, "numpy.random.default_rng")
        time.time_ns = guard(time.time_ns, "time.time_ns"); time.perf_counter = guard(time.perf_counter, "time.perf_counter")
        return self

    def __exit__(self, *a):
        import time, os as _os
        time.time, _os.urandom, random.SystemRandom, np.random.default_rng, time.time_ns, time.perf_counter = self.saved


def seeded(thunk, s):
    random.seed(s); np.random.seed(s)
    with Poison():
        out = thunk()
    st = (random.getstate()[1][:4], tuple(np.random.get_state()[1][:4].tolist()))
    return sig(out), st


def arrays_sig(out, statuses):
    if hasattr(out, "summary"):
        t, D = out.summary()
        return sig([t] + [D[s] for s in statuses if s in D])
    return sig(list(out))


def run_spec(spec, props=("C18",)):
    EoN, sim = import_eon()
    A = Acc()
    kind = spec["kind"]
    if kind == "seeded":
        n = spec["n"]; s = spec["seed"]
        G = sample_graph(n, spec.get("gseed", 1))
        nodes = list(G.nodes())
        allsims = [(name, mk) for name, mk in list(simulators(EoN, G, nodes).items()) + list(discrete_sims(EoN, G, nodes).items())]
        # the full-data objects (node histories AND transmission records) are reproducible too
        allsims += [(name + "/full", mk) for name, mk in list(simulators(EoN, G, nodes, full=True).items()) + list(discrete_sims(EoN, G, nodes, full=True).items())
                    if not name.startswith(("estimate_", "get_infected", "percolate_", "directed_percolate"))]
        for name, mk in allsims:
            try:
                a, sa = seeded(mk, s); b, sb = seeded(mk, s)
                # ... also after a differently seeded call in between (nothing carries over from one call to the next)
                seeded(mk, s + 17); c, sc = seeded(mk, s)
            except RuntimeError as e:
                if "entropy source" not in str(e):
                    raise
                A.add(V("C18", name, "seeded", "entropy", "%s: %s (randomness must come from random / numpy.random only)" % (name, e)))
                continue
            A.execs += 4; A.evals += 1
            A.states.add((name, s)); A.trans.add((name, s, hsh(a))); A.outcomes.add(hsh(a)); A.nontrivial.add((name, s))
            if a != b:
                A.add(V("C18", name, "seeded", "not_reproducible", "two calls of %s with random.seed(%d); numpy.random.seed(%d) differ" % (name, s, s), (), None, None))
            elif sa != sb:
                A.add(V("C18", name, "seeded", "rng_state", "%s leaves the generators in different states after identical seeded calls" % name))
            elif a != c or sa != sc:
                A.add(V("C18", name, "seeded", "not_reproducible", "%s with random.seed(%d); numpy.random.seed(%d) gives a different result after a call with other seeds in between" % (name, s, s)))
        # return mode independence (continuous time: the flag does not influence the draws)
        for name in simulators(EoN, G, nodes):
            stats = ("S", "I") if "SIS" in name else ("S", "I", "R")
            try:
                a, _ = seeded(lambda: arrays_sig(simulators(EoN, G, nodes, full=False)[name](), stats), s)
                b, _ = seeded(lambda: arrays_sig(simulators(EoN, G, nodes, full=True)[name](), stats), s)
            except RuntimeError as e:
                if "entropy source" not in str(e):
                    raise
                continue
            A.execs += 2; A.evals += 1
            if a != b:
                A.add(V("C18", name, "seeded", "flag_dependent", "%s with the same seeds returns different arrays with and without return_full_data" % name))
        A.sample = {"spec": spec, "simulators": sorted(simulators(EoN, G, nodes))}
        return A.result(props)
    if kind == "hashorders":
        n = spec["n"]; s = spec["seed"]
        ref = None
        perms = list(itertools.permutations(range(n)))
        sperms = list(itertools.permutations(range(3)))
        names = None
        for pi, perm in enumerate(perms):
            sp = sperms[pi % len(sperms)]
            labels = [L("v%d" % i, perm[i]) for i in range(n)]
            G = sample_graph(n, spec.get("gseed", 2), labels)
            S = tuple(L(x, 100 + sp[k]) for k, x in enumerate(("S", "I", "R")))
            sims = simulators(EoN, G, labels, S=S, full=spec.get("full", False))
            names = sorted(sims)
            outs = {}
            for name in names:
                if name not in ("Gillespie_simple_contagion", "Gillespie_complex_contagion") and S[0].name == "S":
                    pass
                try:
                    o, _ = seeded(sims[name], s)
                except RuntimeError as e:
                    A.add(V("C18", name, "hashorders", "entropy", str(e))); continue
                outs[name] = o
                A.execs += 1
            A.evals += 1
            A.states.add((tuple(perm), sp))
            if ref is None:
                ref = outs
            else:
                for name in outs:
                    A.trans.add((name, tuple(perm)))
                    if ref.get(name) != outs[name]:
                        A.add(V("C18", name, "hashorders", "hash_dependent", "%s: output changes with the hash values of node labels/statuses (hash assignment %r vs identity)" % (name, perm)))
        A.outcomes.update(hsh(v) for v in (ref or {}).values())
        A.nontrivial.update(A.states)
        A.sample = {"spec": spec, "hash_assignments": len(perms), "simulators": names}
        return A.result(props)
    if kind == "rejection":
        # the weighted rejection sampler must keep drawing from `random` however many rejections occur: a fall-back
        # to any other generator after N failed attempts would be an unseeded source.  The all-reject path is
        # followed deterministically under the oracle (loop closure off).
        from .core import run_once, HarnessError as _HE
        nrej = spec["rejections"]
        ld = sim._ListDict_(weighted=True)
        ld.update("light", weight_increment=spec["ratio"]); ld.update("heavy", weight_increment=1.0)
        prefix = tuple([0, 1] * nrej)
        A.execs = 1; A.evals = 1; A.states.add(nrej); A.trans.add(nrej); A.nontrivial.add(nrej)
        try:
            with Poison():
                r = run_once(sim, lambda orc: ld.choose_random(), prefix, close_loops=False, heap=False, allow_short=True)
            ntry = sum(1 for t in r.trace if t[0] == "choice")
            A.outcomes.add(ntry)
            kinds = [t[0] for t in r.trace]
            protocol = len(kinds) >= 2 and len(kinds) % 2 == 0 and all(kinds[i] == "choice" and kinds[i + 1] == "U" for i in range(0, len(kinds), 2))
            if r.short is not None and not protocol:
                A.count["other_algorithm"] = 1      # not a propose/test loop: the scheduled answers mean nothing to it (its draws are still poisoned-source free)
            elif r.exc is not None:
                A.add(V("C18", "_ListDict_.choose_random", "rejection", "exception", "after %d rejections choose_random raised %r" % (nrej, r.exc)))
            elif ntry < nrej:
                A.add(V("C18", "_ListDict_.choose_random", "rejection", "gives_up", "the rejection loop stopped asking `random` after %d attempts (%d rejections were scheduled): the result no longer comes from the seeded generators" % (ntry, nrej)))
        except (_HE, RuntimeError) as e:
            A.add(V("C18", "_ListDict_.choose_random", "rejection", "entropy", "after repeated rejections choose_random turned to another randomness source: %s" % e))
        A.sample = {"spec": spec}
        return A.result(props)
    if kind == "subprocess":
        seeds = spec["hashseeds"]
        outs = {}
        for hs in seeds:
            env = dict(os.environ, PYTHONHASHSEED=str(hs), EON_REPO=os.environ.get("EON_REPO", "/repo"))
            p = subprocess.run([sys.executable, "-W", "ignore", "-m", "eonmc.repro_child", str(spec["seed"]), str(spec["n"])],
                               cwd=VERIF_ROOT, env=env, capture_output=True, text=True, timeout=600)
            if p.returncode != 0:
                raise HarnessError("child failed: %s" % p.stderr[-500:])
            outs[hs] = json.loads(p.stdout.strip().splitlines()[-1])
            A.execs += len(outs[hs])
        A.evals = len(seeds)
        base = outs[seeds[0]]
        for hs in seeds[1:]:
            for name, dg in outs[hs].items():
                A.trans.add((name, hs))
                if base.get(name) != dg:
                    A.add(V("C18", name, "pythonhashseed", "hash_dependent", "%s with string node names/statuses: output differs between PYTHONHASHSEED=%s and %s" % (name, seeds[0], hs)))
        A.states.update(seeds); A.nontrivial.update(seeds); A.outcomes.update(base.values())
        A.sample = {"spec": spec, "digests": base}
        return A.result(props)
    raise ValueError(kind)


def specs(tier, seed):
    out = []
    thorough = tier != "quick"
    for s in range(seed, seed + 8):
        out.append(dict(kind="seeded", n=12, seed=s, gseed=1 + (s % 3)))
    for n in (3, 4):
        for full in (False, True):
            out.append(dict(kind="hashorders", n=n, seed=seed + 3, gseed=2, full=full))
    if thorough:
        out.append(dict(kind="hashorders", n=5, seed=seed + 5, gseed=3, full=False))
    for nrej in (50, 150, 400):
        out.append(dict(kind="rejection", rejections=nrej, ratio=1e-3))
    hs = list(range(8 if not thorough else 32))
    for i in range(0, len(hs), 4):
        out.append(dict(kind="subprocess", hashseeds=[0] + [h for h in hs[i:i + 4] if h != 0], seed=seed + 1, n=10))
    return out
