"""Driver family: ways of passing the initial condition (C05).

Every simulator and wrapper x graphs x disjoint (I0,R0) x container types x positional/keyword
passing x tmin x rho grid (all random.sample outcomes) x both return modes; one default
execution each (the full execution spaces are inherited through the riders of the other
families).
"""
import itertools, math
import numpy as np
import networkx as nx
from . import import_eon
from .core import explore, explore_kinds, run_once, CapHit, HarnessError
from .common import V, Acc, hsh
from .ref import num, INF
from . import graphs as gr
from . import monitors as mon

SIMS = {
    # name: (model, main positional args builder, supports R0, positional initial args)
    "fast_SIR": ("SIR", "tg", True),
    "Gillespie_SIR": ("SIR", "tg", True),
    "fast_nonMarkov_SIR": ("SIR", "fx", True),
    "discrete_SIR": ("SIR", "dx", True),
    "basic_discrete_SIR": ("SIR", "p", True),
    "percolation_based_discrete_SIR": ("SIR", "p", True),
    "fast_SIS": ("SIS", "tg", False),
    "Gillespie_SIS": ("SIS", "tg", False),
    "fast_nonMarkov_SIS": ("SIS", "fxs", False),
    "basic_discrete_SIS": ("SIS", "p", False),
}
DISCRETE = {"discrete_SIR", "basic_discrete_SIR", "percolation_based_discrete_SIR", "basic_discrete_SIS"}


def container(x, kind):
    x = list(x)
    if kind == "node":
        return x[0]
    if kind == "list":
        return list(x)
    if kind == "tuple":
        return tuple(x)
    if kind == "set":
        return set(x)
    if kind == "range":
        return range(x[0], x[-1] + 1)
    if kind == "array":
        return np.array(x) if len(x) else np.array([], dtype=int)
    if kind == "keys":
        return {v: None for v in x}.keys()
    if kind == "iter":
        return iter(list(x))          # one-shot iterable: may be rejected loudly, must not be half-honoured
    if kind == "gen":
        return (v for v in list(x))
    raise ValueError(kind)


LABELS = {
    "str": lambda i: "n%d" % i,
    "tuple": lambda i: (i // 2, i % 2),          # grid-style labels: a single node *is* a tuple
    "frozenset": lambda i: frozenset([i, "x"]),
    "float": lambda i: i + 0.5,
    "bool_int": lambda i: [False, True, 2, 3][i],   # node 0 is falsy (False == 0), node 1 is True == 1
}


def exp_pol(orc, rate, frame):
    return 1.0 + 2.0 ** -(10 + orc.n_exp), None


def make_call(EoN, name, G, kw, style, I0c, R0c):
    """Returns fn(orc) calling the simulator with the initial condition passed in `style`."""
    model, mainkind, hasR0 = SIMS[name]
    f = getattr(EoN, name)

    def tf(u, v, *a):
        return 0.5

    def rf(u, *a):
        return 1.0

    def tfs(u, v, d, *a):
        return [0.5]
    if mainkind == "tg":
        args = (G, 0.3, 0.7); extra = {}
    elif mainkind == "p":
        args = (G, 0.6); extra = {}
    elif mainkind == "fx":
        args = (G,); extra = dict(trans_time_fxn=tf, rec_time_fxn=rf)
    elif mainkind == "fxs":
        args = (G,); extra = dict(trans_time_fxn=tfs, rec_time_fxn=rf)
    else:
        args = (G,); extra = dict(args=(0.6,))

    def fn(orc):
        k = dict(kw); k.update(extra)
        if style == "positional" and mainkind in ("tg", "p"):
            a = args + ((I0c,) if I0c is not None else ())
            if hasR0 and R0c is not None:
                a = a + (R0c,)
            return f(*a, **k)
        if I0c is not None:
            k["initial_infecteds"] = I0c
        if hasR0 and R0c is not None:
            k["initial_recovereds"] = R0c
        return f(*args, **k)
    return fn


def run_spec(spec, props=("C05",)):
    EoN, sim = import_eon()
    A = Acc()
    kind = spec["kind"]
    if kind == "differential":
        return run_differential(spec, props)
    name = spec["fn"]
    model, mainkind, hasR0 = SIMS[name]
    sir = model == "SIR"
    n = spec["n"]; nodes = list(range(n))
    G = gr.mk(n, [tuple(e) for e in spec["edges"]])
    tmin = num(spec.get("tmin", 0))
    tmax = num(spec.get("tmax", 3)) if not sir or name in DISCRETE else num(spec.get("tmax", "inf"))
    if name in DISCRETE and sir:
        tmax = num(spec.get("tmax", "inf"))
    full = bool(spec.get("full", False))
    kw = dict(tmin=tmin, tmax=tmax, return_full_data=full)
    cls = kind

    if kind == "containers":
        I0 = list(spec["I0"]); R0 = list(spec.get("R0", []))
        if spec.get("labels"):
            mp = {i: LABELS[spec["labels"]](i) for i in range(n)}
            G = nx.relabel_nodes(G, mp)
            nodes = [mp[i] for i in range(n)]; I0 = [mp[i] for i in I0]; R0 = [mp[i] for i in R0]
        ic = spec["icont"]; rc = spec.get("rcont", "list")
        I0c = container(I0, ic)
        R0c = container(R0, rc) if R0 else None
        fn = make_call(EoN, name, G, kw, spec.get("style", "kw"), I0c, R0c)
        r = run_once(sim, fn, (), exp=exp_pol)
        A.execs = 1; A.evals = 1
        A.states.add(hsh(spec)); A.trans.add(hsh(spec))
        cls = "containers:%s" % ic + (("+R0" + (":" + rc if rc != "list" else "")) if R0 else "") + ("+positional" if spec.get("style") == "positional" else "") + (("+labels:" + spec["labels"]) if spec.get("labels") else "")
        if r.exc is not None:
            if isinstance(r.exc, TypeError) and (ic in ("iter", "gen") or rc in ("iter", "gen")):
                A.outcomes.add("rejected:" + type(r.exc).__name__)      # a one-shot iterable is not a sized collection: a loud rejection is fine
                return A.result(props)
            A.add(V("C05", name, cls, "exception", "%s(initial_infecteds=%r%s) raised %r" % (name, I0c, ", initial_recovereds=%r" % (R0c,) if R0 else "", r.exc)))
            return A.result(props)
        out = r.out
        A.nontrivial.add(hsh(spec)); A.outcomes.add(hsh(mon.hist_of(out, nodes) if full else [np.asarray(a).tolist() for a in out]))
        if full != hasattr(out, "get_statuses"):
            A.add(V("C05", name, cls, "return_type", "return_full_data=%r but a %s came back" % (full, type(out).__name__)))
            return A.result(props)
        if full:
            for s, m in mon.c05_full(out, nodes, tmin, I0, R0, sir):
                A.add(V("C05", name, cls, s, m))
            a0 = [out.t(), out.S(), out.I()] + ([out.R()] if sir else [])
            for s, m in mon.c05_arrays(a0, n, tmin, I0, R0, sir, G=G):
                A.add(V("C05", name, cls, "summary_" + s, m))
        else:
            for s, m in mon.c05_arrays(list(out), n, tmin, I0, R0, sir, G=G):
                A.add(V("C05", name, cls, s, m))
        # the caller's containers are not consumed / modified (also C19)
        A.sample = {"spec": spec, "row0": [float(np.asarray(a)[0]) for a in (a0 if full else out)]}
        return A.result(props)

    if kind == "rho":
        rho = spec["rho"]
        k = int(round(n * rho))
        fn = make_call(EoN, name, G, dict(kw, rho=rho), "kw", None, None)
        try:
            runs = list(explore_kinds(sim, fn, {"sample"}, exp=exp_pol))
        except CapHit as e:
            A.caps.append(str(e)); return A.result(props)
        A.execs = len(runs)
        cls = "rho"
        seen = {}
        for r in runs:
            pre = r.chosen()
            if r.exc is not None:
                A.add(V("C05", name, cls, "exception", "%s(rho=%r) on %d nodes raised %r" % (name, rho, n, r.exc), pre)); continue
            out = r.out
            smp = [t for t in r.trace if t[0] == "sample"]
            if len(smp) < 1 or smp[0][3] != (n, k):
                A.add(V("C05", name, cls, "sample_call", "rho=%r on %d nodes: random.sample requests %r, expected one request of %d from %d" % (rho, n, [t[3] for t in smp], k, n), pre)); continue
            if full:
                st = out.get_statuses(time=tmin)
                inf = frozenset(v for v in nodes if st[v] == "I")
                row0 = [out.t()[0], out.S()[0], out.I()[0]]
            else:
                inf = None
                row0 = [np.asarray(a)[0] for a in out]
            want0 = [tmin, n - k, k] + ([0] if sir else [])
            got0 = [float(x) for x in (row0 if not full else row0 + ([out.R()[0]] if sir else []))]
            if got0 != [float(x) for x in want0]:
                A.add(V("C05", name, cls, "row0", "rho=%r on %d nodes: row 0 is %r, expected %r" % (rho, n, got0, want0), pre, got0, want0))
            if inf is not None:
                if len(inf) != k:
                    A.add(V("C05", name, cls, "count", "rho=%r on %d nodes infects %r" % (rho, n, sorted(inf)), pre))
                seen[inf] = seen.get(inf, 0) + 1
            A.outcomes.add(hsh((inf, got0)))
            A.nontrivial.add(pre)
        if full and not A.viol:
            want_sets = {frozenset(c) for c in itertools.combinations(nodes, k)}
            if set(seen) != want_sets or len(set(seen.values())) > 1:
                A.add(V("C05", name, cls, "subsets", "rho=%r on %d nodes: reachable infected sets %r (multiplicities %r), expected every %d-subset equally often" % (rho, n, sorted(map(sorted, seen)), sorted(seen.values()), k)))
        A.states.update(hsh(x) for x in seen); A.trans.add(hsh(spec))
        A.sample = {"spec": spec, "sets": sorted(map(sorted, seen))[:5]}
        return A.result(props)

    if kind == "tmin_ties":
        # genuine events at exactly tmin (zero delays, zero-length infectious periods): row 0 is still the request
        I0 = list(spec["I0"]); R0 = list(spec.get("R0", []))
        var = spec["variant"]

        def rec(u, *a):
            return 0.0 if (var in ("zero_duration", "both") and u == I0[0]) else 1.0
        if name == "fast_nonMarkov_SIS":
            def trans(u, v, d, *a):
                return [0.0, 0.6] if (var in ("zero_delay", "both") and (u + v) % 2 == 1) else [0.4]
            kw2 = dict(kw, trans_time_fxn=trans, rec_time_fxn=rec, initial_infecteds=list(I0))
        else:
            def trans(u, v, *a):
                return 0.0 if (var in ("zero_delay", "both") and (u + v) % 2 == 1) else 0.4
            kw2 = dict(kw, trans_time_fxn=trans, rec_time_fxn=rec, initial_infecteds=list(I0))
            if R0:
                kw2["initial_recovereds"] = list(R0)
        r = run_once(sim, lambda orc: getattr(EoN, name)(G, **kw2), (), exp=exp_pol)
        A.execs = 1; A.evals = 1; A.states.add(hsh(spec)); A.trans.add(hsh(spec)); A.nontrivial.add(hsh(spec))
        cls = "tmin_ties:" + var
        if r.exc is not None:
            A.add(V("C05", name, cls, "exception", "%s with events at exactly tmin raised %r" % (name, r.exc)))
            return A.result(props)
        out = r.out
        if full:
            a0 = [out.t(), out.S(), out.I()] + ([out.R()] if sir else [])
        else:
            a0 = list(out)
        A.outcomes.add(hsh([np.asarray(a).tolist() for a in a0]))
        for s_, m_ in mon.c05_arrays(a0, n, tmin, I0, R0, sir):
            if full:
                continue      # (a time-indexed summary has one row per instant: events at exactly tmin collapse into it)
            A.add(V("C05", name, cls, s_, m_ + " (rules: %s)" % var))
        A.sample = {"spec": spec, "arrays": [np.asarray(a).tolist() for a in a0]}
        return A.result(props)

    if kind == "conflict":
        # rho together with initial_infecteds must be rejected with EoNError
        I0c = {"list": [0], "node0": 0, "node1": 1, "empty": [], "array": np.array([0, 1]), "set": {1}}[spec["given"]]
        rho = spec["rho"]
        fn = make_call(EoN, name, G, dict(kw, rho=rho), "kw", I0c, None)
        r = run_once(sim, fn, (), exp=exp_pol)
        A.execs = 1; A.states.add(hsh(spec)); A.trans.add(hsh(spec)); A.nontrivial.add(hsh(spec))
        cls = "rho+initial_infecteds"
        if r.exc is None:
            A.add(V("C05", name, cls, "accepted", "%s(initial_infecteds=%r, rho=%r) was accepted instead of raising EoNError" % (name, I0c, rho)))
        elif not isinstance(r.exc, EoN.EoNError):
            A.add(V("C05", name, cls, "wrong_exception", "%s(initial_infecteds=%r, rho=%r) raised %s instead of EoNError: %s" % (name, I0c, rho, type(r.exc).__name__, r.exc)))
        A.outcomes.add(type(r.exc).__name__ if r.exc else "none")
        A.sample = {"spec": spec}
        return A.result(props)
    raise ValueError(kind)


def run_differential(spec, props):
    """basic_discrete_SIR(G,p,initial_infecteds=X) and discrete_SIR(G,args=(p,),initial_infecteds=X)
    produce identical executions under identical choice sequences."""
    EoN, sim = import_eon()
    A = Acc()
    n = spec["n"]
    G = gr.mk(n, [tuple(e) for e in spec["edges"]])
    p = spec["p"]; I0 = list(spec["I0"]); R0 = list(spec.get("R0", []))
    full = bool(spec.get("full", False))
    kw = dict(initial_infecteds=list(I0), tmin=num(spec.get("tmin", 0)), return_full_data=full)
    if R0:
        kw["initial_recovereds"] = list(R0)
    a = {r.chosen(): r for r in explore(sim, lambda orc: EoN.basic_discrete_SIR(G, p, **kw), cap=100000)}
    b = {r.chosen(): r for r in explore(sim, lambda orc: EoN.discrete_SIR(G, args=(p,), **kw), cap=100000)}
    A.execs = len(a) + len(b)
    nodes = list(range(n))
    sg = lambda r: ("exc", type(r.exc).__name__) if r.exc is not None else (hsh(mon.hist_of(r.out, nodes)) if hasattr(r.out, "node_history") else hsh([np.asarray(x).tolist() for x in r.out]))
    cls = "wrapper"
    if set(a) != set(b):
        k = sorted(set(a) ^ set(b), key=len)[0]
        A.add(V("C05", "basic_discrete_SIR", cls, "differs_from_discrete_SIR", "choice sequences differ between the wrapper and discrete_SIR (e.g. %r)" % (k,), k))
    else:
        for k in a:
            if sg(a[k]) != sg(b[k]):
                A.add(V("C05", "basic_discrete_SIR", cls, "differs_from_discrete_SIR", "same draws %r, different epidemic: wrapper %r vs discrete_SIR %r" % (k, a[k].exc or a[k].out, b[k].exc or b[k].out), k))
                break
    A.states.update(a); A.trans.update(a); A.nontrivial.update(k for k in a if len(k) > 0); A.outcomes.update(sg(r) for r in a.values())
    A.sample = {"spec": spec, "executions": len(a)}
    return A.result(props)


def specs(tier):
    out = []
    thorough = tier != "quick"
    gs = [gr.NAMED[k] for k in ("P2", "P3", "K3", "P4")] + [(3, [(0, 1)]), (1, []), (4, gr.NAMED["C4"][1]), (3, [(0, 1), (1, 2), (1, 1), (0, 0)])]
    if thorough:
        gs += [(4, es) for es in gr.shapes(4)]
    for name, (model, mainkind, hasR0) in SIMS.items():
        for n, es in gs:
            nodes = list(range(n))
            for I0 in gr.subsets(nodes, 1, min(2, n)):
                rest = [v for v in nodes if v not in I0]
                r0s = [()] + ([(rest[-1],)] if (hasR0 and rest) else [])
                for R0 in r0s:
                    conts = ["node", "list", "tuple", "set", "array", "keys"] if len(I0) == 1 else ["list", "tuple", "set", "array", "keys"]
                    if len(I0) == 2 and I0[1] == I0[0] + 1:
                        conts.append("range")
                    if len(I0) == 1:
                        conts.append("range")
                    for ic in conts:
                        for style in ("kw", "positional"):
                            if style == "positional" and mainkind not in ("tg", "p"):
                                continue
                            for tmin in ((0, 1.5, -2) if (n <= 3 and ic in ("node", "list")) else (0,)):
                                for full in (False, True):
                                    for rc in (("list", "set", "tuple") if (R0 and ic == "list" and tmin == 0) else ("list",)):
                                        out.append(dict(kind="containers", fn=name, n=n, edges=es, I0=list(I0), R0=list(R0), icont=ic,
                                                        rcont=rc, style=style, tmin=tmin, tmax=tmin + 3 if model == "SIS" else "inf", full=full))
            # rho grid
            for rho in ((0.5, 0.49, 0.84, 0.16, 1.0, 0.125, 0.375, 0.625) if n >= 2 else (1.0, 0.4)):
                if n == 4 and rho in (0.49, 0.84, 0.16):
                    continue
                for full in (True, False):
                    out.append(dict(kind="rho", fn=name, n=n, edges=es, rho=rho, tmax=3 if model == "SIS" else "inf", full=full))
        # a collection of size zero is a collection too: nobody is infected, nothing ever happens
        for n, es in [gr.NAMED["P3"], (3, [(0, 1)])]:
            for R0 in [()] + ([(1,)] if hasR0 else []):
                for ic in ("list", "tuple", "set", "array", "keys"):
                    for full in (False, True):
                        for tmin in (0, 1.5):
                            out.append(dict(kind="containers", fn=name, n=n, edges=es, I0=[], R0=list(R0), icont=ic, rcont="list", style="kw",
                                            tmin=tmin, tmax=tmin + 3 if model == "SIS" else "inf", full=full))
        # one-shot iterables: either rejected with TypeError or honoured completely (never consumed half-way)
        for n, es in [gr.NAMED["P3"], gr.NAMED["P4"]]:
            for (I0, R0, ic, rc) in (([0], [], "iter", "list"), ([0, 2], [], "gen", "list"), ([0], [1], "list", "iter"), ([0], [1], "list", "gen"), ([0], [n - 1], "iter", "gen")):
                if R0 and not hasR0:
                    continue
                for full in (False, True):
                    out.append(dict(kind="containers", fn=name, n=n, edges=es, I0=list(I0), R0=list(R0), icont=ic, rcont=rc, style="kw",
                                    tmin=0, tmax=3 if model == "SIS" else "inf", full=full))
        # node label types (strings, tuples as in grid graphs, frozensets, floats, False/True/2): a single node or a collection
        for lab in LABELS:
            for n, es in [gr.NAMED["P3"], (4, [(0, 1), (1, 2)])]:
                for I0 in ((0,), (1,), (0, 2)):
                    rest = [v for v in range(n) if v not in I0]
                    for R0 in [()] + ([(rest[-1],)] if hasR0 else []):
                        conts = ["node", "list", "tuple", "set", "keys"] if len(I0) == 1 else ["list", "tuple", "set", "keys"]
                        if lab == "str":
                            conts.append("array")
                        for ic in conts:
                            for full in (False, True):
                                out.append(dict(kind="containers", fn=name, n=n, edges=es, I0=list(I0), R0=list(R0), icont=ic, rcont="list", style="kw",
                                                tmin=0, tmax=3 if model == "SIS" else "inf", full=full, labels=lab))
        if name in ("fast_nonMarkov_SIS", "fast_nonMarkov_SIR"):
            for n_, es_ in [gr.NAMED[k] for k in ("P2", "P3", "K3", "S4")]:
                for I0 in gr.subsets(range(n_), 1, 2):
                    for var in ("zero_delay", "zero_duration", "both"):
                        for full in (False,):
                            out.append(dict(kind="tmin_ties", fn=name, n=n_, edges=es_, I0=list(I0), R0=[], variant=var, tmin=(0 if sum(I0) % 2 else 1.5),
                                            tmax=(0 if sum(I0) % 2 else 1.5) + 3, full=full))
        for given in ("list", "node0", "node1", "empty", "array", "set"):
            for rho in (0.5, 0.0):
                out.append(dict(kind="conflict", fn=name, n=3, edges=[(0, 1), (1, 2)], given=given, rho=rho, tmax=3))
    for n, es in [gr.NAMED[k] for k in ("P2", "P3", "K3")] + ([gr.NAMED["S4"], gr.NAMED["C4"]] if thorough else []):
        for I0 in gr.subsets(range(n), 1, 2):
            rest = [v for v in range(n) if v not in I0]
            for R0 in [()] + ([(rest[0],)] if rest else []):
                for full in (False, True):
                    for p in (0.3, 1.0):
                        out.append(dict(kind="differential", fn="basic_discrete_SIR", n=n, edges=es, p=p, I0=list(I0), R0=list(R0), full=full))
    return out
