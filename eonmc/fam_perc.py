"""Driver family: percolation builders and estimators (C17, and the builder clauses of C11)."""
import sys, itertools
import networkx as nx
import numpy as np
from . import import_eon
from .core import explore, run_once, outcome_dist, CapHit, HarnessError
from .common import V, Acc, hsh
from .ref import num, INF, reach, sccs
from . import graphs as gr

TOL = 1e-12


def pe_ar_set(nodes, succ):
    """All (PE, AR) pairs a correct implementation may return: one per largest SCC."""
    comps, R = sccs(nodes, succ)
    mx = max(len(c) for c in comps)
    N = float(len(nodes))
    out = set()
    for c in comps:
        if len(c) == mx:
            u = next(iter(c))
            outc = R[u]
            inc = {v for v in nodes if u in R[v]}
            out.add((len(inc) / N, len(outc) / N))
    return out


def in_set(pair, allowed):
    return any(abs(pair[0] - a) <= TOL and abs(pair[1] - b) <= TOL for a, b in allowed)


def digraph(n, edges):
    H = nx.DiGraph(); H.add_nodes_from(range(n)); H.add_edges_from(edges)
    return H


# ------------------------------------------------------------------------------------------

def run_from_dir_perc(spec, props):
    EoN, sim = import_eon()
    A = Acc()
    fn = "estimate_SIR_prob_size_from_dir_perc"
    for (n, es) in spec["graphs"]:
        es = [tuple(e) for e in es]
        H = digraph(n, es)
        A.evals += 1
        try:
            pe, ar = EoN.estimate_SIR_prob_size_from_dir_perc(H)
        except Exception as e:
            A.add(V("C17", fn, "digraph", "exception", "raised %r on digraph n=%d edges=%r" % (e, n, es), (), None, None)); continue
        succ = lambda u: [v for (a, v) in es if a == u]
        allowed = pe_ar_set(list(range(n)), succ)
        A.outcomes.add((round(pe, 9), round(ar, 9)))
        A.states.add((n, tuple(es)))
        if len(es) > 0:
            A.nontrivial.add((n, tuple(es)))
        if not (0 <= pe <= 1 and 0 <= ar <= 1):
            A.add(V("C17", fn, "digraph", "range", "(PE,AR)=%r outside [0,1] on n=%d edges=%r" % ((pe, ar), n, es), (), (pe, ar), sorted(allowed)))
        elif not in_set((pe, ar), allowed):
            A.add(V("C17", fn, "digraph", "value", "(PE,AR)=%r on n=%d edges=%r; a largest strongly connected component gives one of %r" % ((pe, ar), n, es, sorted(allowed)), (), (pe, ar), sorted(allowed)))
        # the answer does not depend on what the nodes are called: tuple labels (grid graphs), strings made of characters that are
        # themselves node names, frozensets
        if n <= 4 or spec.get("relabel_all"):
            for lname, lab in (("tuple", lambda i: (i // 2, i % 2)), ("chars", lambda i: "abcdefghij"[i] if i % 2 == 0 else "abcdefghij"[i - 1] + "abcdefghij"[i]),
                               ("frozenset", lambda i: frozenset([i, "x"]))):
                H2 = nx.relabel_nodes(H, {i: lab(i) for i in range(n)})
                try:
                    pe2, ar2 = EoN.estimate_SIR_prob_size_from_dir_perc(H2)
                except Exception as e:
                    A.add(V("C17", fn, "digraph+labels:" + lname, "exception", "raised %r on digraph n=%d edges=%r relabelled with %s labels %r" % (e, n, es, lname, [lab(i) for i in range(n)]))); continue
                if not in_set((pe2, ar2), allowed):
                    A.add(V("C17", fn, "digraph+labels:" + lname, "value", "(PE,AR)=%r on n=%d edges=%r with %s labels %r; allowed %r" % ((pe2, ar2), n, es, lname, [lab(i) for i in range(n)], sorted(allowed))))
        # helpers with node and iterable arguments
        for src in list(range(n))[:2]:
            want = reach(succ, [src])
            for arg in (src, [src], (src,), {src}):
                got = sim._out_component_(H, arg)
                if set(got) != want:
                    A.add(V("C17", "_out_component_", "digraph", "value", "_out_component_(%r)=%r, reachable set is %r (edges %r)" % (arg, got, want, es)))
            pred = lambda u: [a for (a, v) in es if v == u]
            want = reach(pred, [src])
            got = sim._in_component_(H, src)
            if set(got) != want:
                A.add(V("C17", "_in_component_", "digraph", "value", "_in_component_(%r)=%r, expected %r (edges %r)" % (src, got, want, es)))
    A.execs = A.evals
    A.trans = set(A.states)
    A.sample = {"digraph": spec["graphs"][0]}
    return A.result(props)


def _kept_from_trace(G, r, p):
    edges = list(G.edges())
    if p <= 0:
        return []
    if p >= 1:
        return edges
    us = [t for t in r.trace if t[0] == "U"]
    if len(us) != len(edges):
        raise HarnessError("percolation consumed %d uniform draws for %d edges" % (len(us), len(edges)))
    return [e for e, t in zip(edges, us) if t[2] == 0]


def run_estimate_undirected(spec, props):
    EoN, sim = import_eon()
    A = Acc()
    fn = "estimate_SIR_prob_size"
    n = spec["n"]; es = [tuple(e) for e in spec["edges"]]; p = spec["p"]
    G = gr.mk(n, es)
    # the percolated network itself is observed (the estimator calls the module's percolate_network)
    orig_perc = sim.percolate_network

    def call(orc):
        def spy(G_, p_):
            H_ = orig_perc(G_, p_)
            orc.ctx.setdefault("H", []).append((sorted(H_.nodes()), sorted(tuple(sorted(e)) for e in H_.edges())))
            return H_
        sim.percolate_network = spy
        try:
            return EoN.estimate_SIR_prob_size(G, p)
        finally:
            sim.percolate_network = orig_perc
    try:
        runs = list(explore(sim, call, cap=100000, stats=A.count))
    finally:
        sim.percolate_network = orig_perc
    A.execs = len(runs); A.selfchecks = A.count.pop("selfchecks", 0)
    law = {}
    for r in runs:
        if r.exc is not None:
            A.add(V("C17", fn, "undirected", "exception", "raised %r" % (r.exc,), r.chosen())); continue
        Hs = r.ctx.get("H", [])
        if not Hs and (p <= 0 or p >= 1):
            # (an implementation may skip the percolation step when nothing / everything survives: judged by the value alone)
            Hs = [(list(range(n)), [] if p <= 0 else sorted(tuple(sorted(e)) for e in es))]
        if len(Hs) != 1 or Hs[0][0] != list(range(n)) or not set(Hs[0][1]) <= set(tuple(sorted(e)) for e in es):
            A.add(V("C17", fn, "undirected", "percolated_network", "the estimator worked on %r, expected one percolation of G (nodes %r, a subset of the edges %r)" % (Hs, list(range(n)), es), r.chosen())); continue
        kept = [e for e in G.edges() if tuple(sorted(e)) in set(Hs[0][1])]
        law[tuple(Hs[0][1])] = law.get(tuple(Hs[0][1]), 0.0) + r.prob()
        Hk = gr.mk(n, kept)
        want = max(len(c) for c in nx.connected_components(Hk)) / float(n)
        # brute force, not networkx: reach
        nb = lambda u: [b if a == u else a for (a, b) in kept if u in (a, b)]
        want2 = max(len(reach(nb, [u])) for u in range(n)) / float(n)
        if abs(want - want2) > TOL:
            raise HarnessError("reference disagreement")
        pe, ar = r.out
        A.outcomes.add((round(pe, 9), round(ar, 9), tuple(kept)))
        A.states.add(tuple(kept)); A.trans.add((tuple(kept), want2))
        if kept:
            A.nontrivial.add(r.chosen())
        if abs(pe - want2) > TOL or abs(ar - want2) > TOL:
            A.add(V("C17", fn, "undirected", "value", "returned %r with kept edges %r; largest component fraction is %r" % ((pe, ar), kept, want2), r.chosen(), (pe, ar), want2))
    # bond percolation: every edge kept independently with probability p
    if not A.viol and runs:
        M = len(es)
        for F in set(law) | ({tuple(sorted(tuple(sorted(e)) for e in es))} if p > 0 else set()) | ({()} if p < 1 else set()):
            want_p = (p ** len(F)) * ((1 - p) ** (M - len(F)))
            if abs(law.get(F, 0.0) - want_p) > 1e-9:
                A.add(V("C17", fn, "undirected", "percolation_law", "P(kept edges = %r) = %.9g, independent trials with p=%r give %.9g" % (list(F), law.get(F, 0.0), p, want_p), (), law.get(F, 0.0), want_p))
                break
    A.sample = {"spec": spec}
    return A.result(props)


def run_builder_timing(spec, props):
    """nonMarkov_directed_percolate_network_with_timing and the estimators built on it, with
    lazily enumerated delay/duration tables."""
    EoN, sim = import_eon()
    A = Acc()
    fn = spec["fn"]
    n = spec["n"]; es = [tuple(e) for e in spec["edges"]]
    G = gr.mk(n, es)
    if spec.get("directed"):
        G = nx.DiGraph(); G.add_nodes_from(range(n)); G.add_edges_from(es)     # directed contact network
    D = [num(x) for x in spec["menu"]]
    weights = spec.get("weights", True)
    nodes = list(range(n))

    def call(orc):
        tab = orc.ctx.setdefault("tab", {"delay": {}, "dur": {}, "calls": []})

        def tf(u, v, *a):
            tab["calls"].append(("delay", u, v, a))
            if (u, v) not in tab["delay"]:
                tab["delay"][(u, v)] = orc.pick("delay", D, info=("delay", u, v))
            return tab["delay"][(u, v)]

        def rf(u, *a):
            tab["calls"].append(("dur", u, a))
            if u not in tab["dur"]:
                tab["dur"][u] = orc.pick("dur", D, info=("dur", u))
            return tab["dur"][u]
        if fn == "nonMarkov_directed_percolate_network_with_timing":
            return EoN.nonMarkov_directed_percolate_network_with_timing(G, tf, rf, ("ta",), ("ra", "rb"), weights=weights)
        return EoN.estimate_nonMarkov_SIR_prob_size_with_timing(G, tf, rf, trans_time_args=("ta",), rec_time_args=("ra", "rb"))
    runs = list(explore(sim, call, cap=spec.get("cap", 400000), stats=A.count))
    A.execs = len(runs); A.selfchecks = A.count.pop("selfchecks", 0)
    prop = "C11" if fn.startswith("nonMarkov_directed") else "C17"
    for r in runs:
        pre = r.chosen()
        if r.exc is not None:
            A.add(V(prop, fn, "tables", "exception", "raised %r" % (r.exc,), pre)); continue
        tab = r.ctx["tab"]
        delay, dur = tab["delay"], tab["dur"]
        # arguments forwarded to the user rules
        badargs = [c for c in tab["calls"] if (c[0] == "delay" and c[3] != ("ta",)) or (c[0] == "dur" and c[2] != ("ra", "rb"))]
        if badargs:
            A.add(V(prop, fn, "tables", "rule_args", "user rule called with wrong extra arguments %r" % (badargs[0],), pre))
        # one infectious period per node, one delay per ordered pair: a stochastic user rule asked twice gives two answers
        seen_c = set()
        for c in tab["calls"]:
            kk = c[:2] if c[0] == "dur" else c[:3]
            if kk in seen_c:
                A.add(V(prop, fn, "tables", "rule_asked_twice", "user rule consulted more than once for %r: a stochastic rule would give the node/pair two different values" % (kk,), pre)); break
            seen_c.add(kk)
        want_edges = set()
        missing = None
        for u in nodes:
            if u not in dur:
                missing = ("dur", u); break
            for v in G.neighbors(u):
                if (u, v) not in delay:
                    missing = ("delay", u, v); break
                if delay[(u, v)] <= dur[u]:
                    want_edges.add((u, v))
            if missing:
                break
        if missing:
            A.add(V(prop, fn, "tables", "rule_not_consulted", "rule %r never consulted" % (missing,), pre)); continue
        A.states.add(hsh((sorted(delay.items()), sorted(dur.items()))))
        A.trans.add(tuple(sorted(want_edges)))
        if want_edges:
            A.nontrivial.add(pre)
        if fn == "nonMarkov_directed_percolate_network_with_timing":
            H = r.out
            A.outcomes.add(tuple(sorted(H.edges())))
            if not H.is_directed() or sorted(H.nodes()) != nodes:
                A.add(V(prop, fn, "tables", "nodes", "result has nodes %r directed=%r, G has %r" % (sorted(H.nodes()), H.is_directed(), nodes), pre)); continue
            if set(H.edges()) != want_edges:
                A.add(V(prop, fn, "tables", "edges", "edges %r, rule delay<=duration gives %r (delays %r durations %r)" % (sorted(H.edges()), sorted(want_edges), delay, dur), pre, sorted(H.edges()), sorted(want_edges))); continue
            if weights:
                for u in nodes:
                    if H.nodes[u].get("duration") != dur[u]:
                        A.add(V(prop, fn, "tables", "node_attr", "node %r has attributes %r, duration is %r" % (u, dict(H.nodes[u]), dur[u]), pre)); break
                for (u, v) in H.edges():
                    if H[u][v].get("delay_to_infection") != delay[(u, v)]:
                        A.add(V(prop, fn, "tables", "edge_attr", "edge %r has attributes %r, delay is %r" % ((u, v), dict(H[u][v]), delay[(u, v)]), pre)); break
            else:
                if any(H.nodes[u] for u in nodes) or any(H[u][v] for u, v in H.edges()):
                    A.add(V(prop, fn, "tables", "unweighted_attr", "weights=False but attributes present", pre))
        else:
            pe, ar = r.out
            A.outcomes.add((round(pe, 9), round(ar, 9)))
            succ = lambda u: [v for (a, v) in want_edges if a == u]
            allowed = pe_ar_set(nodes, succ)
            if not in_set((pe, ar), allowed):
                A.add(V(prop, fn, "tables", "value", "(PE,AR)=%r, percolated digraph %r allows %r" % ((pe, ar), sorted(want_edges), sorted(allowed)), pre, (pe, ar), sorted(allowed)))
    A.sample = {"spec": spec}
    return A.result(props)


def run_builder_xi(spec, props):
    """nonMarkov_directed_percolate_network / estimate_nonMarkov_SIR_prob_size with xi, zeta and a
    lazily enumerated Boolean transmission rule."""
    EoN, sim = import_eon()
    A = Acc()
    fn = spec["fn"]
    n = spec["n"]; es = [tuple(e) for e in spec["edges"]]
    G = gr.mk(n, es)
    if spec.get("directed"):
        # a directed contact network: u can infect v only along an edge u->v of G
        G = nx.DiGraph(); G.add_nodes_from(range(n)); G.add_edges_from(es)
    nodes = list(range(n))
    xi = {u: 10 + u for u in nodes}
    zeta = {u: 20 + u for u in nodes}
    homog = bool(spec.get("homogeneous"))
    if homog:
        # a homogeneous population: everybody has the same infectiousness and susceptibility value; the (stochastic) rule is
        # still asked once per ordered pair and may answer differently each time
        xi = {u: 10 for u in nodes}; zeta = {u: 20 for u in nodes}
    pair_order = [(u, v) for u in G.nodes() for v in G.neighbors(u)]
    container = spec.get("container", "dict")
    if container == "defaultdict":
        from collections import defaultdict
        xi2 = defaultdict(lambda: -1); xi2.update(xi); zeta2 = defaultdict(lambda: -2); zeta2.update(zeta)
    elif container == "lazy":
        # a mapping that produces a node's value on first access (dict subclass with __missing__)
        class Lazy(dict):
            def __init__(self, base):
                dict.__init__(self); self.base = base

            def __missing__(self, k):
                self[k] = self.base + k
                return self[k]
        xi2, zeta2 = Lazy(10), Lazy(20)
    elif container == "list":
        xi2, zeta2 = [xi[u] for u in nodes], [zeta[u] for u in nodes]      # indexable by the integer node labels
    elif container == "array":
        xi2, zeta2 = np.array([xi[u] for u in nodes]), np.array([zeta[u] for u in nodes])
    else:
        xi2, zeta2 = dict(xi), dict(zeta)

    def call(orc):
        tab = orc.ctx.setdefault("tab", {})

        rt = spec.get("rule_returns", "bool")

        def transmission(x, z):
            k = (int(x) - 10, int(z) - 20)
            if homog:
                # which pair is being asked about is read from the caller (its loop variables u, v), else from the call order
                loc = sys._getframe(1).f_locals
                cnt = orc.ctx.setdefault("ncalls", [0]); cnt[0] += 1
                if "u" in loc and "v" in loc and (loc["u"], loc["v"]) in pair_order:
                    k = (loc["u"], loc["v"])
                else:
                    k = pair_order[(cnt[0] - 1) % len(pair_order)] if pair_order else (0, 0)
                if k in tab:
                    orc.ctx["asked_twice"] = k
            if k not in tab:
                tab[k] = orc.pick("transmission", [True, False], info=("transmission",) + k)
            # the rule's answer is a truth value: Python bool, numpy.bool_ (what comparisons of numpy floats give) or 0/1
            if rt == "npbool":
                return np.bool_(tab[k])
            if rt == "int":
                return 1 if tab[k] else 0
            return tab[k]
        if fn == "nonMarkov_directed_percolate_network":
            return EoN.nonMarkov_directed_percolate_network(G, xi2, zeta2, transmission)
        return EoN.estimate_nonMarkov_SIR_prob_size(G, xi2, zeta2, transmission)
    runs = list(explore(sim, call, cap=spec.get("cap", 400000), stats=A.count))
    A.execs = len(runs); A.selfchecks = A.count.pop("selfchecks", 0)
    for r in runs:
        pre = r.chosen()
        if r.exc is not None:
            A.add(V("C17", fn, "xi_zeta", "exception", "raised %r" % (r.exc,), pre)); continue
        tab = r.ctx["tab"]
        if r.ctx.get("asked_twice"):
            A.add(V("C17", fn, "xi_zeta", "rule_asked_twice", "transmission rule consulted more than once for the pair %r" % (r.ctx["asked_twice"],), pre)); continue
        bad = [k for k in tab if not G.has_edge(*k)]
        if bad:
            A.add(V("C17", fn, "xi_zeta", "rule_args", "transmission rule consulted for non-adjacent pair %r" % (bad[0],), pre)); continue
        pairs = [(u, v) for u in nodes for v in G.neighbors(u)]
        miss = [k for k in pairs if k not in tab]
        if miss:
            A.add(V("C17", fn, "xi_zeta", "rule_not_consulted", "transmission rule never consulted for %r" % (miss[0],), pre)); continue
        want_edges = {k for k in pairs if tab[k]}
        A.states.add(tuple(sorted(tab.items()))); A.trans.add(tuple(sorted(want_edges)))
        if want_edges:
            A.nontrivial.add(pre)
        if fn == "nonMarkov_directed_percolate_network":
            H = r.out
            A.outcomes.add(tuple(sorted(H.edges())))
            if not H.is_directed() or sorted(H.nodes()) != nodes or set(H.edges()) != want_edges:
                A.add(V("C17", fn, "xi_zeta", "edges", "nodes %r edges %r; rule gives nodes %r edges %r" % (sorted(H.nodes()), sorted(H.edges()), nodes, sorted(want_edges)), pre))
        else:
            pe, ar = r.out
            A.outcomes.add((round(pe, 9), round(ar, 9)))
            succ = lambda u: [v for (a, v) in want_edges if a == u]
            allowed = pe_ar_set(nodes, succ)
            if not in_set((pe, ar), allowed):
                A.add(V("C17", fn, "xi_zeta", "value", "(PE,AR)=%r, percolated digraph %r allows %r" % ((pe, ar), sorted(want_edges), sorted(allowed)), pre, (pe, ar), sorted(allowed)))
    A.sample = {"spec": spec}
    return A.result(props)


def _who_dp(frame):
    name = frame.f_code.co_name
    loc = frame.f_locals
    if name == "trans_time_fxn":
        return "delay", (loc["u"], loc["v"])
    if name == "rec_time_fxn":
        return "dur", loc["u"]
    raise HarnessError("expovariate called from unexpected place %s" % name)


def run_markov_dp(spec, props):
    """directed_percolate_network / get_infected_nodes / estimate_directed_SIR_prob_size under an
    enumerating expovariate menu."""
    EoN, sim = import_eon()
    A = Acc()
    fn = spec["fn"]
    n = spec["n"]; es = [tuple(e) for e in spec["edges"]]
    G = gr.mk(n, es)
    nodes = list(range(n))
    tau, gamma = spec["tau"], spec["gamma"]
    menu = spec["menu"]
    I0 = spec.get("I0"); R0 = spec.get("R0")
    prop = "C17" if fn == "estimate_directed_SIR_prob_size" else "C11"

    def pol(orc, rate, frame):
        kind, who = _who_dp(frame)
        val = orc.pick("exp", menu, info=(kind, who))
        orc.log.append(("draw", kind, who, rate, val))
        return val, None

    def conv(x, style):
        if x is None:
            return None
        if style == "node":
            return x[0]
        return {"list": list, "tuple": tuple, "set": set}[style](x)

    def call(orc):
        if fn == "directed_percolate_network":
            return EoN.directed_percolate_network(G, tau, gamma, weights=spec.get("weights", True))
        if fn == "estimate_directed_SIR_prob_size":
            return EoN.estimate_directed_SIR_prob_size(G, tau, gamma)
        return EoN.get_infected_nodes(G, tau, gamma, initial_infecteds=conv(I0, spec.get("i_style", "list")),
                                      initial_recovereds=conv(R0, spec.get("r_style", "list")))
    runs = list(explore(sim, call, exp=pol, cap=spec.get("cap", 400000), stats=A.count))
    A.execs = len(runs); A.selfchecks = A.count.pop("selfchecks", 0)
    cls = "markov"
    for r in runs:
        pre = r.chosen()
        if r.exc is not None:
            A.add(V(prop, fn, cls, "exception", "raised %r" % (r.exc,), pre)); continue
        delay = {}; dur = {}
        bad = False
        for (_, kind, who, rate, val) in r.log:
            want = tau if kind == "delay" else gamma
            if abs(rate - want) > 1e-12 or (kind == "delay" and who in delay) or (kind == "dur" and who in dur):
                A.add(V(prop, fn, cls, "draw", "%s for %r drawn with rate %r (expected one draw of rate %r)" % (kind, who, rate, want), pre)); bad = True
            if kind == "delay":
                delay[who] = val
            else:
                dur[who] = val
        if bad:
            continue
        for u in nodes:
            if gamma == 0:
                dur.setdefault(u, INF)
            for v in G.neighbors(u):
                if tau == 0:
                    delay.setdefault((u, v), INF)
        pairs = [(u, v) for u in nodes for v in G.neighbors(u)]
        if any(u not in dur for u in nodes) or any(k not in delay for k in pairs):
            A.add(V(prop, fn, cls, "draw_missing", "not every node / ordered neighbour pair got its exponential draw (durations %r delays %r)" % (sorted(dur), sorted(delay)), pre)); continue
        want_edges = {k for k in pairs if delay[k] <= dur[k[0]]}
        A.states.add(hsh((sorted(delay.items()), sorted(dur.items())))); A.trans.add(tuple(sorted(want_edges)))
        if want_edges:
            A.nontrivial.add(pre)
        if fn == "directed_percolate_network":
            H = r.out
            A.outcomes.add(tuple(sorted(H.edges())))
            if not H.is_directed() or sorted(H.nodes()) != nodes or set(H.edges()) != want_edges:
                A.add(V(prop, fn, cls, "edges", "nodes %r edges %r; delay<=duration gives %r" % (sorted(H.nodes()), sorted(H.edges()), sorted(want_edges)), pre))
            elif spec.get("weights", True):
                if any(H.nodes[u].get("duration") != dur[u] for u in nodes) or any(H[u][v].get("delay_to_infection") != delay[(u, v)] for u, v in H.edges()):
                    A.add(V(prop, fn, cls, "attributes", "duration / delay_to_infection attributes differ from the drawn values", pre))
        elif fn == "estimate_directed_SIR_prob_size":
            pe, ar = r.out
            A.outcomes.add((round(pe, 9), round(ar, 9)))
            succ = lambda u: [v for (a, v) in want_edges if a == u]
            allowed = pe_ar_set(nodes, succ)
            if not in_set((pe, ar), allowed):
                A.add(V(prop, fn, cls, "value", "(PE,AR)=%r, percolated digraph %r allows %r" % ((pe, ar), sorted(want_edges), sorted(allowed)), pre))
        else:
            R0s = set(R0 or [])
            succ = lambda u: [v for (a, v) in want_edges if a == u and v not in R0s]
            want = reach(succ, list(I0))
            got = r.out
            A.outcomes.add(tuple(sorted(got)))
            if set(got) != want:
                A.add(V(prop, fn, cls, "value", "get_infected_nodes=%r; out-component of %r in the percolated digraph %r without %r is %r" % (sorted(got), I0, sorted(want_edges), sorted(R0s), sorted(want)), pre, sorted(got), sorted(want)))
    A.sample = {"spec": spec}
    return A.result(props)


def run_spec(spec, props=("C17", "C11")):
    k = spec["kind"]
    res = {"from_dir_perc": run_from_dir_perc, "undirected": run_estimate_undirected, "timing": run_builder_timing,
           "xi": run_builder_xi, "markov": run_markov_dp}[k](spec, props)
    return res


def specs_c17(tier):
    out = []
    thorough = tier != "quick"
    # all labelled digraphs on <=3 nodes, all shapes on 4
    graphs = []
    for n in (1, 2, 3):
        graphs += [(n, es) for es in gr.labelled_digraphs(n)]
    chunk = 20
    for i in range(0, len(graphs), chunk):
        out.append(dict(kind="from_dir_perc", graphs=graphs[i:i + chunk]))
    g4 = [(4, es) for es in gr.digraph_shapes(4)]
    for i in range(0, len(g4), chunk):
        out.append(dict(kind="from_dir_perc", graphs=g4[i:i + chunk]))
    if thorough:
        g4l = [(4, es) for es in gr.labelled_digraphs(4)]
        for i in range(0, len(g4l), 128):
            out.append(dict(kind="from_dir_perc", graphs=g4l[i:i + 128]))
    # disjoint unions of two or three small digraph shapes (several components, the largest SCC not in the largest piece, ties)
    small = [(n, es) for n in (1, 2, 3) for es in gr.digraph_shapes(n)]
    unions = []
    for (a, ea), (b, eb) in itertools.product(small, small):
        if a + b <= 6 and (ea or eb):
            unions.append((a + b, list(ea) + [(u + a, v + a) for (u, v) in eb]))
    for (a, ea), (b, eb), (c, ec) in itertools.product(small[:8], small[:8], small[:8]):
        if a + b + c <= 6 and (ea or eb or ec) and not thorough and (a, b, c) != (1, 1, 1):
            unions.append((a + b + c, list(ea) + [(u + a, v + a) for (u, v) in eb] + [(u + a + b, v + a + b) for (u, v) in ec]))
    # an acyclic 4- or 5-node piece next to a 2-cycle / triangle
    for big in ([(0, 1), (0, 2), (0, 3)], [(0, 1), (1, 2), (2, 3)], [(0, 1), (0, 2), (0, 3), (0, 4)], [(0, 1), (1, 2), (2, 3), (3, 4)]):
        nb = max(max(e) for e in big) + 1
        for cyc in ([(0, 1), (1, 0)], [(0, 1), (1, 2), (2, 0)]):
            nc = max(max(e) for e in cyc) + 1
            unions.append((nb + nc, list(big) + [(u + nb, v + nb) for (u, v) in cyc]))
            unions.append((nb + nc, list(cyc) + [(u + nc, v + nc) for (u, v) in big]))
    for i in range(0, len(unions), 40):
        out.append(dict(kind="from_dir_perc", graphs=unions[i:i + 40]))
    und = [(n, es) for n, es in gr.small_graphs(3)] + [(4, es) for es in gr.shapes(4)]
    # disjoint unions of small trees/cycles in both orders (the largest component need not contain the highest-degree node)
    pieces = [gr.NAMED["P2"], gr.NAMED["P3"], gr.NAMED["K3"], gr.NAMED["S4"], gr.NAMED["P4"], gr.NAMED["P5"]]
    for (a, ea), (b, eb) in itertools.product(pieces, pieces):
        if a + b <= 9 and a != b:
            und.append((a + b, list(ea) + [(u + a, v + a) for (u, v) in eb]))
    if thorough:
        und += [(5, es) for es in gr.shapes(5) if len(es) <= 7]
    und += [(3, [(0, 1), (1, 2), (1, 1)]), (4, [(0, 1), (2, 2), (3, 3), (2, 3)]), (3, [(0, 0), (1, 1), (2, 2)])]      # self-loops
    for n, es in und:
        for p in (0.0, 0.3, 1.0):
            if p == 0.3 and len(es) > 6:
                continue
            out.append(dict(kind="undirected", n=n, edges=es, p=p))
    small = [gr.NAMED[k] for k in ("P2", "P3", "K3")] + [(3, [(0, 1)])] + [(3, [(0, 1), (1, 2), (1, 1)]), (2, [(0, 1), (0, 0), (1, 1)])]    # incl. self-loops
    for n, es in small + ([gr.NAMED["S4"], gr.NAMED["P4"], gr.NAMED["C4"]] if thorough else [gr.NAMED["S4"]]):
        for fn in ("nonMarkov_directed_percolate_network", "estimate_nonMarkov_SIR_prob_size"):
            for cont in ("dict", "defaultdict", "lazy"):       # (documented as dicts read with xi[u]: dict subclasses, not lists)
                out.append(dict(kind="xi", fn=fn, n=n, edges=es, container=cont))
            if n <= 3:
                out.append(dict(kind="xi", fn=fn, n=n, edges=es, container="dict", homogeneous=True))
                for rt in ("npbool", "int"):
                    out.append(dict(kind="xi", fn=fn, n=n, edges=es, container="dict", rule_returns=rt))
        if n <= 3:
            # the same shapes read as directed contact networks (edges as listed, plus one with a reciprocated pair)
            for des in ([es] + ([es + [(es[0][1], es[0][0])]] if es and es[0][0] != es[0][1] else [])):
                for fn in ("nonMarkov_directed_percolate_network", "estimate_nonMarkov_SIR_prob_size"):
                    out.append(dict(kind="xi", fn=fn, n=n, edges=des, container="dict", directed=True))
        m = [0, 1, "inf"] if len(es) >= 3 else [0, 1, 2, "inf"]
        out.append(dict(kind="timing", fn="estimate_nonMarkov_SIR_prob_size_with_timing", n=n, edges=es, menu=m if n <= 3 else [1, 2]))
        out.append(dict(kind="markov", fn="estimate_directed_SIR_prob_size", n=n, edges=es, tau=0.3, gamma=0.7, menu=[0.5, 1.6]))
    for des in ([(0, 1), (1, 2)], [(0, 1), (1, 0), (1, 2)], [(0, 1), (2, 1)]):
        out.append(dict(kind="timing", fn="estimate_nonMarkov_SIR_prob_size_with_timing", n=3, edges=des, menu=[0, 1, 2, "inf"], directed=True))
    return out


def specs_c11_builders(tier):
    out = []
    thorough = tier != "quick"
    small = [gr.NAMED[k] for k in ("P2", "P3", "K3")] + [(3, [(0, 1)]), (2, [])]
    if thorough:
        small += [gr.NAMED["S4"], gr.NAMED["P4"]]
    for des in ([(0, 1), (1, 2)], [(0, 1), (1, 0), (1, 2)], [(0, 1), (2, 1)]):
        for w in (True, False):
            out.append(dict(kind="timing", fn="nonMarkov_directed_percolate_network_with_timing", n=3, edges=des, menu=[0, 1, 2, "inf"], weights=w, directed=True))
    for n, es in small:
        for w in (True, False):
            m = [0, 1, "inf"] if len(es) >= 3 else [0, 1, 2, "inf"]
            out.append(dict(kind="timing", fn="nonMarkov_directed_percolate_network_with_timing", n=n, edges=es, menu=m, weights=w))
            for (tau, gamma) in ((0.3, 0.7), (0.0, 0.7), (0.3, 0.0)):
                out.append(dict(kind="markov", fn="directed_percolate_network", n=n, edges=es, tau=tau, gamma=gamma,
                                menu=[0.5, 1.6] if len(es) >= 3 else [0.4, 1.0, 2.7], weights=w))
        nodes = list(range(n))
        for I0 in gr.subsets(nodes, 1, 2):
            rest = [v for v in nodes if v not in I0]
            for R0 in [None] + [list(x) for x in gr.subsets(rest, 1, 1)]:
                for i_style in (("node", "list", "set", "tuple") if len(I0) == 1 else ("list", "set")):
                    for r_style in (("list", "node") if R0 else ("list",)):
                        out.append(dict(kind="markov", fn="get_infected_nodes", n=n, edges=es, tau=0.3, gamma=0.7, menu=[0.5, 1.6],
                                        I0=list(I0), R0=R0, i_style=i_style, r_style=r_style))
    return out
