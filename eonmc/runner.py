"""Check runner: fan specs out over processes, collect coverage, apply the known-findings
policy, write replays and evidence (DESIGN §1.7, §1.9, §5).

usage:  python -m eonmc.runner C01 [--tier quick|thorough] [--jobs N]
        python -m eonmc.runner --replay <file>
"""
import sys, os, json, time, argparse, importlib, hashlib, traceback, random as _random
import multiprocessing as mp

from . import VERIF_ROOT, REPO_ROOT
from .core import HarnessError, NonTermination

EVID_DIR = os.path.join(VERIF_ROOT, "evidence")
REPLAY_DIR = os.path.join(VERIF_ROOT, "replays")
FINDINGS = os.path.join(VERIF_ROOT, "known_findings.json")


def load_findings():
    if not os.path.exists(FINDINGS):
        return {}
    with open(FINDINGS) as f:
        d = json.load(f)
    return {e["key"]: e for e in d.get("findings", [])}


def _jsonable(x):
    import numpy as np
    if isinstance(x, dict):
        return {str(k): _jsonable(v) for k, v in x.items()}
    if isinstance(x, (list, tuple, set, frozenset)):
        return [_jsonable(v) for v in x]
    if isinstance(x, np.ndarray):
        return x.tolist()
    if isinstance(x, np.generic):
        return x.item()
    if isinstance(x, float):
        if x != x:
            return "nan"
        if x in (float("inf"), float("-inf")):
            return "inf" if x > 0 else "-inf"
        return x
    if x is None or isinstance(x, (bool, int, str)):
        return x
    return repr(x)


def _worker(args):
    modname, spec = args
    try:
        mod = importlib.import_module(modname)
        t0 = time.time()
        res = mod.run_spec(spec)
        res["wall"] = time.time() - t0
        res["spec"] = spec
        return res
    except NonTermination as e:
        prop = modname.split(".")[-1].upper()
        entry = spec.get("fn") or spec.get("program") or spec.get("kind") or "?"
        return {"execs": 1, "spec": spec, "violations": [{
            "prop": prop, "key": "%s|%s|any|nontermination" % (prop, entry), "prefix": list(e.prefix),
            "msg": "%s: %s (first choices %r)" % (entry, e, list(e.prefix)[:20]), "observed": None, "expected": None}]}
    except HarnessError as e:
        return {"harness_error": "%s: %s" % (type(e).__name__, e), "spec": spec,
                "tb": traceback.format_exc()}
    except Exception as e:
        return {"harness_error": "unexpected %s: %s" % (type(e).__name__, e), "spec": spec,
                "tb": traceback.format_exc()}


SUM_KEYS = ("execs", "states", "transitions", "evals", "nontrivial", "outcomes", "selfchecks")


def run_check(prop, tier, jobs, only=None):
    modname = "checks." + prop.lower()
    mod = importlib.import_module(modname)
    seed = int(os.environ.get("VERIF_SEED", "0"))
    specs = mod.specs(tier, seed)
    if only is not None:
        specs = [s for s in specs if only in json.dumps(_jsonable(s))]
    _random.Random(seed).shuffle(specs)   # VERIF_SEED only rotates enumeration order
    t0 = time.time()
    tot = {k: 0 for k in SUM_KEYS}
    viols = []
    samples = []
    caps = []
    herr = []
    extra = {}
    nspec = 0
    if jobs > 1 and len(specs) > 1:
        ctx = mp.get_context("fork")
        pool = ctx.Pool(jobs)
        it = pool.imap_unordered(_worker, [(modname, s) for s in specs], chunksize=1)
    else:
        pool = None
        it = map(_worker, [(modname, s) for s in specs])
    try:
        for res in it:
            nspec += 1
            if "harness_error" in res:
                herr.append(res)
                continue
            for k in SUM_KEYS:
                tot[k] += int(res.get(k, 0))
            for v in res.get("violations", []):
                v["spec"] = res["spec"]
                viols.append(v)
            if res.get("sample") is not None and len(samples) < 6:
                samples.append(res["sample"])
            caps.extend(res.get("caps", []))
            for k, v in res.get("max", {}).items():
                extra[k] = max(extra.get(k, 0.0), v)
            for k, v in res.get("count", {}).items():
                extra[k] = extra.get(k, 0) + v
    finally:
        if pool is not None:
            pool.terminate(); pool.join()
    wall = time.time() - t0
    return mod, specs, tot, viols, samples, caps, herr, extra, wall, seed


def write_replay(prop, v):
    d = os.path.join(REPLAY_DIR, prop)
    os.makedirs(d, exist_ok=True)
    body = {"property": prop, "key": v["key"], "module": "checks." + prop.lower(),
            "spec": v["spec"], "prefix": list(v.get("prefix", []) or []),
            "message": v.get("msg", ""), "observed": _jsonable(v.get("observed")),
            "expected": _jsonable(v.get("expected"))}
    h = hashlib.sha1(json.dumps(_jsonable(body), sort_keys=True).encode()).hexdigest()[:12]
    path = os.path.join(d, h + ".json")
    with open(path, "w") as f:
        json.dump(_jsonable(body), f, indent=1, sort_keys=True)
    return path


def main(argv=None):
    ap = argparse.ArgumentParser()
    ap.add_argument("prop", nargs="?")
    ap.add_argument("--tier", default=os.environ.get("VERIF_TIER", "quick"))
    ap.add_argument("--jobs", type=int, default=int(os.environ.get("VERIF_JOBS", "0")) or min(16, os.cpu_count() or 1))
    ap.add_argument("--replay")
    ap.add_argument("--only", help="substring filter on specs (debugging)")
    ap.add_argument("--no-evidence", action="store_true")
    a = ap.parse_args(argv)
    sys.path.insert(0, VERIF_ROOT)
    if a.replay:
        return replay(a.replay)
    prop = a.prop.upper()
    tier = a.tier if a.tier in ("quick", "thorough") else "quick"
    try:
        mod, specs, tot, viols, samples, caps, herr, extra, wall, seed = run_check(prop, tier, a.jobs, a.only)
    except HarnessError as e:
        print("HARNESS-ERROR property=%s %s" % (prop, e))
        return 2
    known = load_findings()
    # group violations by finding key
    bykey = {}
    for v in viols:
        bykey.setdefault(v["key"], []).append(v)
    rc = 0
    new = 0
    for key, vs in sorted(bykey.items()):
        e = known.get(key)
        if e is not None and e.get("status") == "known":
            print("KNOWN-FINDING: property=%s %s -- %s (%d occurrences this run)"
                  % (prop, key, e.get("what", ""), len(vs)))
            continue
        # smallest witness first: fewest choices, then smallest spec
        vs.sort(key=lambda v: (len(v.get("prefix") or ()), len(json.dumps(_jsonable(v["spec"])))))
        path = write_replay(prop, vs[0])
        print("VIOLATION property=%s replay=%s" % (prop, path))
        print("  key=%s occurrences=%d : %s" % (key, len(vs), vs[0].get("msg", "")))
        new += 1
        rc = 1
    for h in herr[:5]:
        print("HARNESS-ERROR property=%s spec=%s : %s" % (prop, json.dumps(_jsonable(h["spec"]))[:300], h["harness_error"]))
        if os.environ.get("VERIF_DEBUG"):
            print(h.get("tb", ""))
    if herr and rc == 0:
        rc = 2
    if caps and rc == 0:
        print("CAP-HIT property=%s %s" % (prop, caps[:3]))
        rc = 2
    level = getattr(mod, "LEVEL", "model_checking")
    cov = {
        "evaluations": tot["evals"] or tot["execs"],
        "distinct_nontrivial": tot["nontrivial"],
        "rule": getattr(mod, "RULE", ""),
        "samples": samples,
        "exhaustive": not caps and not herr,
        "specs": len(specs),
        "distinct_outcomes": tot["outcomes"],
        "determinism_selfchecks": tot["selfchecks"],
        "caps_hit": caps[:10],
        "bounds": getattr(mod, "BOUNDS", {}).get(tier, ""),
    }
    if level == "model_checking":
        cov["states"] = tot["states"]
        # monitor-only checks have no reference transition graph: count the executions the monitor judged
        # (rows_checked = event rows the monitors judged; a few driver kinds of a monitor check also count transitions of their own)
        cov["transitions"] = max(tot["transitions"], int(extra.get("rows_checked", 0)))
        cov["traces_validated_against_impl"] = tot["execs"]
    for k, v in extra.items():
        cov[k] = v
    ev = {
        "property_id": prop, "tier": tier, "seed": seed, "level": level, "coverage": cov,
        "assumptions": getattr(mod, "ASSUMPTIONS", []),
        "wall_s": round(wall, 3), "violations": new,
        "known_findings_reported": sorted(k for k in bykey if known.get(k, {}).get("status") == "known"),
    }
    if not a.no_evidence:
        os.makedirs(EVID_DIR, exist_ok=True)
        with open(os.path.join(EVID_DIR, prop + ".json"), "w") as f:
            json.dump(_jsonable(ev), f, indent=1, sort_keys=True)
    print("%s tier=%s seed=%d specs=%d execs=%d evals=%d states=%d transitions=%d outcomes=%d nontrivial=%d violations=%d wall=%.1fs rc=%d"
          % (prop, tier, seed, len(specs), tot["execs"], tot["evals"], tot["states"], tot["transitions"],
             tot["outcomes"], tot["nontrivial"], new, wall, rc))
    return rc


def replay(path):
    """Re-run exactly the recorded spec (no exploration beyond that one driver) and report
    whether a violation with the recorded key still occurs."""
    with open(path) as f:
        body = json.load(f)
    mod = importlib.import_module(body["module"])
    res = _worker((body["module"], body["spec"]))
    if "harness_error" in res:
        print("HARNESS-ERROR", res["harness_error"])
        return 2
    hit = [v for v in res.get("violations", []) if v["key"] == body["key"]]
    if hit:
        print("VIOLATION property=%s replay=%s" % (body["property"], path))
        print("  still fails: %s" % hit[0].get("msg", ""))
        return 1
    print("replay passes: %s no longer violates %s" % (path, body["key"]))
    return 0


if __name__ == "__main__":
    sys.exit(main())
