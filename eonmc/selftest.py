"""setup_cmd: nothing to build (pure Python); verify the environment and the explorer itself."""
import sys
from . import import_eon
from .core import explore, segments


def main():
    EoN, sim = import_eon()
    import networkx as nx
    G = nx.complete_graph(4)
    runs = list(explore(sim, lambda orc: EoN.Gillespie_SIR(G, 0.3, 0.7, initial_infecteds=[0])))
    mass = sum(r.prob() for r in runs)
    assert abs(mass - 1) < 1e-9, mass
    # final size 1 has probability gamma/(gamma+3 tau)
    p1 = sum(r.prob() for r in runs if r.out[3][-1] == 1)
    assert abs(p1 - 0.7 / (0.7 + 0.9)) < 1e-9, p1
    print("eonmc selftest ok: EoN from %s, %d executions of Gillespie_SIR on K4, mass %.12f" % (EoN.__file__, len(runs), mass))
    return 0


if __name__ == "__main__":
    sys.exit(main())
