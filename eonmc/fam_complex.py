"""Driver family: Gillespie_complex_contagion under the choice-point oracle (C15).

User programs (rate function, transition chooser, influence set) are a catalogue plus lazily
enumerated rate tables.  At every event boundary: for ALL nodes the user rate evaluated by the
harness on the current statuses equals the weight the simulator holds; selection probability
= rate/sum; clock rate = sum; new status = chooser's answer; the status dict handed to the
call-backs is current; stop iff sum = 0 or tmax.  Riders: C04 C10 C19.
"""
import itertools
import networkx as nx
import numpy as np
from . import import_eon
from .core import explore, run_once, segments, CapHit, HarnessError
from .common import V, Acc, hsh
from .ref import num, INF
from . import graphs as gr
from . import monitors as mon

TOL = 1e-9
TAU, GAMMA = 0.3, 0.7


class Program(object):
    """name, statuses, rate(G,node,st)->float (pure), choose(orc,G,node,st)->new status,
    influence(G,node,st)->iterable"""


def nI(G, node, st, s="I"):
    return sum(1 for v in G.neighbors(node) if st[v] == s)


def make_program(name, orc_holder):
    P = Program(); P.name = name; P.lazy = False

    def nbrs(G, node, st):
        return list(G.neighbors(node))
    P.influence = nbrs
    if name in ("SIR", "SIR_set", "SIR_iter"):
        P.statuses = ["S", "I", "R"]
        P.rate = lambda G, node, st: TAU * nI(G, node, st) if st[node] == "S" else (GAMMA if st[node] == "I" else 0.0)
        P.choose = lambda G, node, st: "I" if st[node] == "S" else "R"
        if name == "SIR_set":
            P.influence = lambda G, node, st: set(G.neighbors(node))
        if name == "SIR_iter":
            P.influence = lambda G, node, st: iter(list(G.neighbors(node)))
    elif name == "SIR_int0":
        # integer status labels, one of them falsy: 1 = susceptible, 2 = infected, 0 = recovered
        P.statuses = [1, 2, 0]
        P.rate = lambda G, node, st: TAU * nI(G, node, st, 2) if st[node] == 1 else (GAMMA if st[node] == 2 else 0.0)
        P.choose = lambda G, node, st: 2 if st[node] == 1 else 0
    elif name in ("decay", "tinydecay"):
        # independent decays A -> B with heterogeneous node rates (no interaction): after the unique fastest node
        # has fired, selection among the rest must still be proportional; "tinydecay": rates of order 1e-8
        P.statuses = ["A", "B"]
        base = [1.1, 0.3, 0.7, 0.3] if name == "decay" else [3e-8, 2e-8, 1e-8, 1e-8]
        P.rate = lambda G, node, st: base[node % 4] if st[node] == "A" else 0.0
        P.choose = lambda G, node, st: "B"
        P.influence = lambda G, node, st: []
    elif name == "SIS":
        P.statuses = ["S", "I"]
        P.rate = lambda G, node, st: TAU * nI(G, node, st) if st[node] == "S" else GAMMA
        P.choose = lambda G, node, st: "I" if st[node] == "S" else "S"
    elif name == "pressure":
        # infection pressure that can overtake every rate already in the table (0.5 per infected neighbour vs recovery 0.7)
        P.statuses = ["S", "I"]
        P.rate = lambda G, node, st: 0.5 * nI(G, node, st) if st[node] == "S" else GAMMA
        P.choose = lambda G, node, st: "I" if st[node] == "S" else "S"
    elif name in ("thr1", "thr2"):
        th = int(name[-1])
        P.statuses = ["S", "I"]
        P.rate = lambda G, node, st: (1.1 if nI(G, node, st) >= th else 0.0) if st[node] == "S" else GAMMA
        P.choose = lambda G, node, st: "I" if st[node] == "S" else "S"
    elif name == "global":
        P.statuses = ["S", "I", "R"]
        P.rate = lambda G, node, st: (0.3 * sum(1 for v in G if st[v] == "I") / G.order()) if st[node] == "S" else (GAMMA if st[node] == "I" else 0.0)
        P.choose = lambda G, node, st: "I" if st[node] == "S" else "R"
        P.influence = lambda G, node, st: list(G.nodes())
    elif name == "twoway":
        P.statuses = ["S", "I", "R"]
        P.rate = lambda G, node, st: TAU * nI(G, node, st) if st[node] == "S" else (GAMMA if st[node] == "I" else 0.1)
        def ch(G, node, st):
            if st[node] == "S":
                return "I"
            if st[node] == "I":
                return orc_holder[0].pick("chooser", ["R", "S"], probs=(0.4, 0.6), info=("chooser", node))
            return "S"
        P.choose = ch
    elif name == "lazy":
        P.lazy = True
        P.statuses = ["A", "B"]
        def rate(G, node, st):
            key = (st[node], nI(G, node, st, "A"))
            tab = orc_holder[0].ctx.setdefault("rtab", {})
            if key not in tab:
                if orc_holder[1]:       # harness evaluation must not create behaviour
                    return None
                tab[key] = orc_holder[0].pick("ratetable", [0.0, 0.3, 1.1], info=("rate",) + key)
            return tab[key]
        P.rate = rate
        P.choose = lambda G, node, st: "B" if st[node] == "A" else "A"
    else:
        raise ValueError(name)
    return P


def run_spec(spec, props=("C15",)):
    EoN, sim = import_eon()
    A = Acc()
    fn = "Gillespie_complex_contagion"
    n = spec["n"]; nodes = list(range(n))
    G = gr.mk(n, [tuple(e) for e in spec["edges"]])
    tmin = num(spec.get("tmin", 0)); tmax = num(spec.get("tmax", 3.5))
    full = bool(spec.get("full", False))
    pname = spec["program"]
    use_params = bool(spec.get("params", False))
    cls = pname
    holder = [None, False]
    P = make_program(pname, holder)
    stats = P.statuses

    def call(orc, full_):
        holder[0] = orc; holder[1] = False
        hs = dict(zip(nodes, spec["IC"]))        # harness-tracked state
        orc.ctx["hs"] = hs
        orc.ctx["pending"] = None
        orc.ctx["cb_err"] = None

        def sync(status, where):
            p = orc.ctx["pending"]
            if p is not None and where != "choose":
                hs[p[0]] = p[1]; orc.ctx["pending"] = None
            if orc.ctx["cb_err"] is None and dict(status) != hs:
                orc.ctx["cb_err"] = (where, dict(status), dict(hs))

        def rate_function(G_, node, status, parameters):
            sync(status, "rate")
            if orc.ctx["cb_err"] is None and ((parameters != (TAU, GAMMA)) if use_params else (parameters != ())):
                orc.ctx["cb_err"] = ("parameters", parameters, None)
            orc.log.append(("rate", node))
            return P.rate(G_, node, status)

        def transition_choice(G_, node, status, parameters):
            sync(status, "choose")
            new = P.choose(G_, node, status)
            orc.ctx["pending"] = (node, new)
            orc.log.append(("choose", node, new))
            return new

        def get_influence_set(G_, node, status, parameters):
            sync(status, "influence")
            return P.influence(G_, node, status)
        kw = dict(tmin=tmin, tmax=tmax, return_full_data=full_)
        if use_params:
            kw["parameters"] = (TAU, GAMMA)
        IC = dict(zip(nodes, spec["IC"]))
        return EoN.Gillespie_complex_contagion(G, rate_function, transition_choice, get_influence_set, IC, stats, **kw)

    def pol(orc, rate, frame):
        loc = frame.f_locals
        st = loc.get("status")
        if not isinstance(st, dict):
            raise HarnessError("cannot find the simulator's `status` dict")
        orc.ctx["status"] = st
        state = tuple(st[v] for v in nodes)
        nbr = loc.get("nodes_by_rate")
        if nbr is not None and "held" not in orc.ctx:
            # the weights the simulator holds vs the user function on the current statuses
            holder[1] = True
            try:
                for v in nodes:
                    want = P.rate(G, v, st)
                    got = nbr.weight.get(v, 0.0) if v in nbr else 0.0
                    if want is None:
                        orc.ctx["held"] = (len(orc.marks), v, got, "never evaluated for its current situation", state)
                        break
                    if abs(got - want) > TOL * max(abs(got), abs(want)) or ((v in nbr) and want == 0 and got != 0):
                        orc.ctx["held"] = (len(orc.marks), v, got, want, state)
                        break
            finally:
                holder[1] = False
        return 1.0, state

    before = mon.snap(G)
    try:
        runs = list(explore(sim, lambda orc: call(orc, full), exp=pol, cap=spec.get("cap", 300000), stats=A.count))
    except CapHit as e:
        A.caps.append(str(e)); return A.result(props)
    A.execs = len(runs); A.selfchecks = A.count.pop("selfchecks", 0)
    if "C19" in props:
        for s, m in mon.c19_compare([before], [mon.snap(G)], ["G"]):
            A.add(V("C19", fn, cls, s, m))

    def rates_for(r, state):
        """successor -> rate using the program (lazy tables: the table of this execution)."""
        st = dict(zip(nodes, state))
        holder[0] = r; holder[1] = True     # Run has .ctx like an oracle
        R = {}; tot = 0.0
        try:
            for v in nodes:
                w = P.rate(G, v, st)
                if w is None:
                    return None, None
                tot += w
                if w > 0:
                    if pname == "twoway" and st[v] == "I":
                        outs = [("R", 0.4), ("S", 0.6)]
                    else:
                        outs = [(P.choose(G, v, st), 1.0)]
                    for new, pr in outs:
                        t = list(state); t[v] = new; t = tuple(t)
                        R[t] = R.get(t, 0.0) + w * pr
        finally:
            holder[1] = False
        return R, tot

    if "C15" in props:
        def end_label(r):
            if r.exc is not None:
                return ("EXC", type(r.exc).__name__)
            return ("END", tuple(r.ctx["status"][v] for v in nodes))
        segs = segments(runs, end_label=end_label)
        # a representative execution for each segment (needed for lazy tables): any run extending the prefix
        runs_sorted = sorted(runs, key=lambda r: r.chosen())
        import bisect
        keys = [r.chosen() for r in runs_sorted]
        for sg in segs:
            st = sg.state
            i = bisect.bisect_left(keys, sg.prefix)
            rep = runs_sorted[min(i, len(runs_sorted) - 1)]
            if rep.chosen()[:len(sg.prefix)] != sg.prefix:
                raise HarnessError("no execution extends a segment prefix")
            # lazy tables: the representative's final table extends the table in force at this boundary,
            # and every key needed in this state is already assigned if the simulator re-rates correctly
            R, RT = rates_for(rep, st)
            A.states.add((st, hsh(sorted(rep.ctx.get("rtab", {}).items())) if P.lazy else 0))
            if R is None:
                continue   # reported through the 'held' check
            t_after = tmin + sg.ordinal + 1
            if abs(sg.rate - RT) > TOL * max(abs(sg.rate), abs(RT)):     # relative: rates of any magnitude
                A.add(V("C15", fn, cls, "clock_rate", "state %r: waiting time drawn with rate %r, sum of user rates %r" % (st, sg.rate, RT), sg.prefix, sg.rate, RT))
            should_end = (RT <= 0) or (t_after >= tmax)
            succ = {}
            for lf, p in sg.dist.items():
                if lf[0] == "EXC":
                    A.add(V("C15", fn, cls, "exception", "state %r: raised %s" % (st, lf[1]), sg.prefix))
                elif lf[0] == "LIVELOCK":
                    A.add(V("C15", fn, cls, "livelock", "state %r: selection can never accept" % (st,), sg.prefix))
                elif lf[0] == "END" and lf[1] == st:
                    if not should_end and p > TOL:
                        A.add(V("C15", fn, cls, "ends_early", "state %r (sum of rates %r): run ends without an event" % (st, RT), sg.prefix))
                else:
                    succ[lf[1]] = succ.get(lf[1], 0.0) + p
                    A.trans.add((st, lf[1]))
                    if lf[0] == "END" and p > 0 and t_after < tmax:
                        R2, RT2 = rates_for(rep, lf[1])
                        if RT2 is not None and RT2 > 0:
                            A.add(V("C15", fn, cls, "ends_early", "after %r -> %r the run stops although the rates still sum to %r" % (st, lf[1], RT2), sg.prefix))
            if should_end:
                for nxt in succ:
                    A.add(V("C15", fn, cls, "event_after_end", "state %r: event to %r although all rates are zero / tmax passed" % (st, nxt), sg.prefix))
                continue
            for nxt, p in succ.items():
                want = R.get(nxt, 0.0) / RT
                if abs(p - want) > TOL:
                    sym = "extra_event" if want == 0 else "probability"
                    A.add(V("C15", fn, cls, sym, "state %r -> %r with probability %.12g, rate/sum gives %.12g" % (st, nxt, p, want), sg.prefix, p, want))
            for nxt, r_ in R.items():
                if r_ > 0 and r_ / RT > 1e-12 and nxt not in succ:
                    A.add(V("C15", fn, cls, "missing_event", "state %r: node change to %r (rate %r) never offered" % (st, nxt, r_), sg.prefix))
    for r in runs:
        pre = r.chosen()
        if "C15" in props:
            if "held" in r.ctx:
                k, v, got, want, state = r.ctx["held"]
                A.add(V("C15", fn, cls, "stale_rate", "after %d events in state %r the simulator holds rate %r for node %r, the user function gives %r" % (k, state, got, v, want), pre, got, want))
            if r.ctx.get("cb_err"):
                w, got, want = r.ctx["cb_err"]
                A.add(V("C15", fn, cls, "callback_args", "call-back (%s) received %r, current value is %r" % (w, got, want), pre, got, want))
        if r.cut is not None:
            continue
        if r.exc is not None:
            if "C04" in props:
                A.add(V("C04", fn, cls, "exception", "%s raised %r" % (fn, r.exc), pre))
            continue
        out = r.out
        b = [m for m in r.marks if m[1] == "exp"]
        if full:
            t_, D_ = out.summary()
            arrs = [t_] + [D_[s] for s in stats]
        else:
            arrs = list(out)
        A.outcomes.add(hsh([np.asarray(a).tolist() for a in arrs]))
        A.count["rows_checked"] = A.count.get("rows_checked", 0) + 1
        if len(arrs[0]) > 1:
            A.nontrivial.add(pre)
        if "C15" in props:
            rows = len(arrs[0])
            for j in range(min(rows, len(b))):
                st = b[j][3]
                want = [sum(1 for x in st if x == s) for s in stats]
                got = [int(a[j]) for a in arrs[1:]]
                if got != want or arrs[0][j] != tmin + j:
                    A.add(V("C15", fn, cls, "output_vs_state", "row %d is t=%r %r, statuses are %r" % (j, arrs[0][j], got, st), pre, got, want))
                    break
            # chooser's answer is the new status: consecutive states differ exactly at the chosen node
            chs = [x for x in r.log if x[0] == "choose"]
            states = [m[3] for m in b] + [tuple(r.ctx["status"][v] for v in nodes)] if b else []
            for j, (_, node, new) in enumerate(chs):
                if j + 1 < len(states):
                    s0, s1 = states[j], states[j + 1]
                    exp_s1 = list(s0); exp_s1[node] = new
                    if tuple(exp_s1) != s1:
                        A.add(V("C15", fn, cls, "chooser_ignored", "event %d: chooser answered %r for node %r in %r but the next state is %r" % (j, new, node, s0, s1), pre))
                        break
        if "C04" in props:
            mv = {(stats.index(a), stats.index(b_)) for a in stats for b_ in stats if a != b_}
            for s, m in mon.c04(arrs, n, tmin, tmax, "spec", moves=mv):
                A.add(V("C04", fn, cls, s, m, pre))
        if "C10" in props and full:
            r2 = run_once(sim, lambda orc: call(orc, False), pre, exp=pol)
            if r2.chosen() != pre:
                A.add(V("C10", fn, cls, "draws_differ", "the two return modes consume different random draws", pre))
            elif r2.exc is not None:
                A.add(V("C10", fn, cls, "exception", "array mode raised %r" % (r2.exc,), pre))
            else:
                legal = {(a, b_) for a in stats for b_ in stats if a != b_}
                for s, m in mon.c10(out, list(r2.out), G, tmin, stats, legal):
                    A.add(V("C10", fn, cls, s, m, pre))
    if runs:
        r = runs[len(runs) // 2]
        A.sample = {"spec": spec, "choices": list(r.chosen()),
                    "states_visited": [list(m[3]) for m in r.marks if m[1] == "exp"][:6],
                    "rate_table": {repr(k): v for k, v in r.ctx.get("rtab", {}).items()}}
    return A.result(props)


PROGRAMS = ["SIR", "SIR_set", "SIR_iter", "SIR_int0", "decay", "tinydecay", "SIS", "pressure", "thr1", "thr2", "global", "twoway", "lazy"]


def specs(tier):
    out = []
    thorough = tier != "quick"
    gs = [(n, es) for n, es in gr.small_graphs(3)]
    gs += [gr.NAMED[k] for k in (("C4", "S4", "P4", "K4") if thorough else ("C4", "S4"))]
    for pname in PROGRAMS:
        alphabet = {"SIR": "SIR", "SIR_set": "SIR", "SIR_iter": "SIR", "SIR_int0": [1, 2, 0], "decay": "AB", "tinydecay": "AB", "SIS": "SI", "pressure": "SI", "thr1": "SI", "thr2": "SI",
                    "global": "SIR", "twoway": "SIR", "lazy": "AB"}[pname]
        term = pname in ("SIR", "SIR_set", "SIR_iter", "SIR_int0", "global", "decay", "tinydecay")
        for (n, es) in gs:
            if pname in ("SIR_set", "SIR_iter", "SIR_int0") and n == 4:
                continue
            for ic in itertools.product(alphabet, repeat=n):
                if n == 4 and not thorough and sum(1 for x in ic if x != alphabet[0]) > 2:
                    continue
                K = (4 if thorough else 3) if n <= 3 else (3 if thorough else 2)
                if pname == "lazy":
                    K = 3 if thorough and n <= 3 else 2
                tmaxes = [K + 0.5]
                if term and n <= 3:
                    tmaxes.append("inf")
                for tmax in tmaxes:
                    for full in (False, True):
                        if full and (n == 4 or pname in ("SIR_set", "SIR_iter", "lazy")) and not thorough:
                            continue
                        out.append(dict(fn="complex", program=pname, n=n, edges=es, IC=list(ic), tmax=tmax, full=full,
                                        params=(pname in ("SIS", "thr2") and not full)))
        out.append(dict(fn="complex", program=pname, n=3, edges=[(0, 1), (1, 2)], IC=[alphabet[1], alphabet[0], alphabet[0]],
                        tmin=1.5, tmax=3.5, full=True, params=True))
    return out
