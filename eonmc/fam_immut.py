"""Driver family: calls do not modify their arguments and can be repeated (C19)."""
import random, warnings, itertools
import numpy as np
import networkx as nx
from collections import defaultdict
from scipy.special import comb
from . import import_eon
from .common import V, Acc, hsh
from .core import sig
from . import graphs as gr
from . import monitors as mon
from . import analytic_catalog as cat
from .fam_equiv import pgf_from_hist


def graph_with_attrs(n, edges):
    G = nx.Graph()
    G.add_nodes_from(range(n))
    for i, (u, v) in enumerate(edges):
        G.add_edge(u, v, w=0.2 + 0.3 * i, weight=0.5 + 0.1 * i)
    for u in range(n):
        G.nodes[u]["rw"] = 0.5 + 0.2 * u
    G.graph["name"] = "arg"
    return G


def sim_calls(EoN, G, n):
    """name -> (callable, positional args, kwargs) sharing argument objects between calls."""
    I0 = [0]; R0 = [n - 1]
    H = nx.DiGraph(); H.add_edge("I", "R", rate=0.7); H.add_edge("R", "S", rate=0.3, weight_label="rw")
    J = nx.DiGraph(); J.add_edge(("I", "S"), ("I", "I"), rate=0.8, weight_label="w")
    ICd = {v: ("I" if v == 0 else "S") for v in range(n)}
    ICdd = defaultdict(lambda: "S"); ICdd[0] = "I"
    stats = ["S", "I", "R"]
    params = (0.8, 0.7)
    targs = (0.8,); rargs = (1.0,)

    def rate_function(G_, node, status, parameters):
        tau, gamma = parameters
        if status[node] == "S":
            return tau * sum(1 for nb in G_.neighbors(node) if status[nb] == "I")
        return gamma if status[node] == "I" else 0.0
    calls = {}
    for full in (False, True):
        f = "+full" if full else ""
        calls["Gillespie_SIR" + f] = (EoN.Gillespie_SIR, (G, 0.8, 0.7), dict(initial_infecteds=I0, initial_recovereds=R0, transmission_weight="w", recovery_weight="rw", return_full_data=full))
        calls["Gillespie_SIS" + f] = (EoN.Gillespie_SIS, (G, 0.8, 0.7), dict(initial_infecteds=I0, tmax=3, transmission_weight="w", recovery_weight="rw", return_full_data=full))
        calls["fast_SIR" + f] = (EoN.fast_SIR, (G, 0.8, 0.7), dict(initial_infecteds=I0, initial_recovereds=R0, return_full_data=full))
        calls["fast_SIR_w" + f] = (EoN.fast_SIR, (G, 0.8, 0.7), dict(initial_infecteds=I0, initial_recovereds=R0, transmission_weight="w", recovery_weight="rw", return_full_data=full))
        calls["fast_SIS" + f] = (EoN.fast_SIS, (G, 0.8, 0.7), dict(initial_infecteds=I0, tmax=3, transmission_weight="w", recovery_weight="rw", return_full_data=full))
        calls["fast_nonMarkov_SIR" + f] = (EoN.fast_nonMarkov_SIR, (G,), dict(trans_time_fxn=lambda u, v, r: random.expovariate(r), rec_time_fxn=lambda u, d: d, trans_time_args=targs, rec_time_args=rargs,
                                                                           initial_infecteds=I0, initial_recovereds=R0, return_full_data=full))
        calls["fast_nonMarkov_SIS" + f] = (EoN.fast_nonMarkov_SIS, (G,), dict(trans_time_fxn=lambda u, v, d, r: sorted(random.random() * d for _ in range(2)), rec_time_fxn=lambda u, d: d,
                                                                           trans_time_args=targs, rec_time_args=rargs, initial_infecteds=I0, tmax=3, return_full_data=full))
        calls["discrete_SIR" + f] = (EoN.discrete_SIR, (G,), dict(args=(0.6,), initial_infecteds=I0, initial_recovereds=R0, return_full_data=full))
        calls["basic_discrete_SIR" + f] = (EoN.basic_discrete_SIR, (G, 0.6), dict(initial_infecteds=I0, initial_recovereds=R0, return_full_data=full))
        calls["basic_discrete_SIS" + f] = (EoN.basic_discrete_SIS, (G, 0.6), dict(initial_infecteds=I0, tmax=4, return_full_data=full))
        calls["percolation_based_discrete_SIR" + f] = (EoN.percolation_based_discrete_SIR, (G, 0.6), dict(initial_infecteds=I0, initial_recovereds=R0, return_full_data=full))
        calls["Gillespie_simple_contagion(dict)" + f] = (EoN.Gillespie_simple_contagion, (G, H, J, ICd, stats), dict(tmax=3, return_full_data=full))
        calls["Gillespie_simple_contagion(defaultdict)" + f] = (EoN.Gillespie_simple_contagion, (G, H, J, ICdd, stats), dict(tmax=3, return_full_data=full))
        # status labels of mixed type (not sortable against each other): 'S', 'I' and the integer 0
        Hm = nx.DiGraph(); Hm.add_edge("I", 0, rate=0.7); Hm.add_edge(0, "S", rate=0.3)
        Jm = nx.DiGraph(); Jm.add_edge(("I", "S"), ("I", "I"), rate=0.8)
        calls["Gillespie_simple_contagion(mixed labels)" + f] = (EoN.Gillespie_simple_contagion, (G, Hm, Jm, dict(ICd), ["S", "I", 0]), dict(tmax=3, return_full_data=full))
        # a model graph with a transition that is switched off (rate exactly 0) - e.g. one step of a parameter sweep
        Hz = nx.DiGraph(); Hz.add_edge("I", "R", rate=0.7); Hz.add_edge("R", "S", rate=0.0)
        Jz = nx.DiGraph(); Jz.add_edge(("I", "S"), ("I", "I"), rate=0.8); Jz.add_edge(("R", "S"), ("R", "R"), rate=0.0)
        calls["Gillespie_simple_contagion(zero-rate transitions)" + f] = (EoN.Gillespie_simple_contagion, (G, Hz, Jz, dict(ICd), ["S", "I", "R"]), dict(tmax=3, return_full_data=full))
        # initial sets passed as sets / tuples (the caller's containers)
        calls["Gillespie_SIR(sets)" + f] = (EoN.Gillespie_SIR, (G, 0.8, 0.7), dict(initial_infecteds=set(I0), initial_recovereds=set(R0), return_full_data=full))
        calls["fast_SIR(sets)" + f] = (EoN.fast_SIR, (G, 0.8, 0.7), dict(initial_infecteds=set(I0), initial_recovereds=set(R0), return_full_data=full))
        calls["discrete_SIR(sets)" + f] = (EoN.discrete_SIR, (G,), dict(args=(0.6,), initial_infecteds=set(I0), initial_recovereds=set(R0), return_full_data=full))
        calls["Gillespie_complex_contagion" + f] = (EoN.Gillespie_complex_contagion, (G, rate_function, lambda G_, node, status, parameters: "I" if status[node] == "S" else "R",
                                                    lambda G_, node, status, parameters: list(G_.neighbors(node)), ICd, stats), dict(tmax=30, parameters=params, return_full_data=full))
    calls["estimate_SIR_prob_size"] = (EoN.estimate_SIR_prob_size, (G, 0.6), {})
    calls["estimate_directed_SIR_prob_size"] = (EoN.estimate_directed_SIR_prob_size, (G, 0.8, 0.7), {})
    calls["get_infected_nodes"] = (EoN.get_infected_nodes, (G, 0.8, 0.7), dict(initial_infecteds=I0, initial_recovereds=R0))
    calls["percolate_network"] = (EoN.percolate_network, (G, 0.6), {})
    calls["directed_percolate_network"] = (EoN.directed_percolate_network, (G, 0.8, 0.7), {})
    xi = {v: 1.0 + v for v in range(n)}; zeta = {v: 0.5 for v in range(n)}
    calls["nonMarkov_directed_percolate_network"] = (EoN.nonMarkov_directed_percolate_network, (G, xi, zeta, lambda x, z: x * z > 1.2), {})
    return calls


def direct_calls(EoN, G, I0, R0, rho):
    """Direct (array-argument) model functions with inputs built from a graph + request."""
    N = float(G.order())
    E = cat.expected_initial(G, ("sets", I0, R0), "SIR")
    Es = cat.expected_initial(G, ("sets", I0, []), "SIS")
    deg = dict(G.degree()); maxk = max(deg.values())
    Nk = np.zeros(maxk + 1)
    for v, k in deg.items():
        Nk[k] += 1
    Pk, psi, psiP, psiDP = pgf_from_hist(Nk)
    kave = sum(k * Pk[k] for k in Pk)
    Pnk = EoN.get_Pnk(G)
    Ks = np.array(E["Ks"])
    kw = dict(tmin=0, tmax=2, tcount=5)
    A = lambda x: np.array(x, dtype=float)
    calls = {}
    for full in (False, True):
        f = "+full" if full else ""
        calls["SIS_heterogeneous_meanfield" + f] = (EoN.SIS_heterogeneous_meanfield, (A(Es["Sk"]), A(Es["Ik"]), 0.6, 0.7), dict(kw, return_full_data=full))
        calls["SIR_heterogeneous_meanfield" + f] = (EoN.SIR_heterogeneous_meanfield, (A(E["Sk"]), A(E["Ik"]), A(E["Rk"]), 0.6, 0.7), dict(kw, return_full_data=full))
        calls["SIS_heterogeneous_meanfield(lists)" + f] = (EoN.SIS_heterogeneous_meanfield, (list(Es["Sk"]), list(Es["Ik"]), 0.6, 0.7), dict(kw, return_full_data=full))
        sk = lambda e, key: A([e[key][k] for k in Ks])
        calls["SIS_heterogeneous_pairwise" + f] = (EoN.SIS_heterogeneous_pairwise, (sk(Es, "Sk"), sk(Es, "Ik"), A(Es["SkSl"]), A(Es["SkIl"]), A(Es["IkIl"]), 0.6, 0.7), dict(kw, return_full_data=full, Ks=Ks.copy()))
        calls["SIR_heterogeneous_pairwise" + f] = (EoN.SIR_heterogeneous_pairwise, (sk(E, "Sk"), sk(E, "Ik"), sk(E, "Rk"), A(E["SkSl"]), A(E["SkIl"]), 0.6, 0.7), dict(kw, return_full_data=full, Ks=Ks.copy()))
        # the optional degree array with float dtype (also with degree 0 present)
        calls["SIS_heterogeneous_pairwise(floatKs)" + f] = (EoN.SIS_heterogeneous_pairwise, (sk(Es, "Sk"), sk(Es, "Ik"), A(Es["SkSl"]), A(Es["SkIl"]), A(Es["IkIl"]), 0.6, 0.7), dict(kw, return_full_data=full, Ks=Ks.astype(float)))
        calls["SIR_heterogeneous_pairwise(floatKs)" + f] = (EoN.SIR_heterogeneous_pairwise, (sk(E, "Sk"), sk(E, "Ik"), sk(E, "Rk"), A(E["SkSl"]), A(E["SkIl"]), 0.6, 0.7), dict(kw, return_full_data=full, Ks=Ks.astype(float)))
        calls["SIS_compact_pairwise" + f] = (EoN.SIS_compact_pairwise, (A(Es["Sk"]), A(Es["Ik"]), Es["SI"], Es["SS"], Es["II"], 0.6, 0.7), dict(kw, return_full_data=full))
        calls["SIR_compact_pairwise" + f] = (EoN.SIR_compact_pairwise, (A(E["Sk"]), E["I"], E["R"], E["SS"], E["SI"], 0.6, 0.7), dict(kw, return_full_data=full))
        calls["SIS_effective_degree" + f] = (EoN.SIS_effective_degree, (A(Es["Ssi"]), A(Es["Isi"]), 0.6, 0.7), dict(kw, return_full_data=full))
        calls["SIR_effective_degree" + f] = (EoN.SIR_effective_degree, (A(E["Ssi"]), E["I"], E["R"], 0.6, 0.7), dict(kw, return_full_data=full))
        calls["SIR_compact_effective_degree" + f] = (EoN.SIR_compact_effective_degree, (A(E["Skappa"]), E["I"], E["R"], E["SI"], 0.6, 0.7), dict(kw, return_full_data=full))
        calls["SIS_compact_effective_degree" + f] = (EoN.SIS_compact_effective_degree, (A(Es["Sk"]), A(Es["Ik"]), Es["SI"], Es["SS"], Es["II"], 0.6, 0.7), dict(kw, return_full_data=full))
        calls["EBCM_pref_mix" + f] = (EoN.EBCM_pref_mix, (N, Pk, Pnk, 0.6, 0.7), dict(kw, rho=rho, return_full_data=full))
        calls["EBCM_pref_mix_discrete" + f] = (EoN.EBCM_pref_mix_discrete, (N, Pk, Pnk, 0.4), dict(rho=rho, tmax=4, return_full_data=full))
    # node-level models with every optional array argument given explicitly (full outer products, so
    # entries of non-adjacent pairs are non-zero in the caller's arrays)
    nl = list(G.nodes())
    Y0 = A([1.0 if v in I0 else 0.15 for v in nl]); X0 = 1 - Y0
    X0r = A([0.0 if (v in I0 or v in R0) else 0.85 for v in nl])
    for full in (False, True):
        f = "+full" if full else ""
        calls["SIS_pair_based(arrays)" + f] = (EoN.SIS_pair_based, (G, 0.6, 0.7), dict(nodelist=list(nl), Y0=Y0.copy(), XY0=X0[:, None] * Y0[None, :], XX0=X0[:, None] * X0[None, :], tmin=0, tmax=2, tcount=5, return_full_data=full))
        calls["SIR_pair_based(arrays)" + f] = (EoN.SIR_pair_based, (G, 0.6, 0.7), dict(nodelist=list(nl), Y0=Y0.copy(), X0=X0r.copy(), XY0=X0r[:, None] * Y0[None, :], XX0=X0r[:, None] * X0r[None, :], tmin=0, tmax=2, tcount=5, return_full_data=full))
        calls["SIS_individual_based(arrays)" + f] = (EoN.SIS_individual_based, (G, 0.6, 0.7), dict(nodelist=list(nl), Y0=Y0.copy(), tmin=0, tmax=2, tcount=5, return_full_data=full))
        calls["SIR_individual_based(arrays)" + f] = (EoN.SIR_individual_based, (G, 0.6, 0.7), dict(nodelist=list(nl), Y0=Y0.copy(), X0=X0r.copy(), tmin=0, tmax=2, tcount=5, return_full_data=full))
    calls["Attack_rate_cts_time"] = (EoN.Attack_rate_cts_time, (Pk, 0.6, 0.7), dict(rho=rho))
    calls["Attack_rate_discrete"] = (EoN.Attack_rate_discrete, (Pk, 0.4), dict(rho=rho))
    calls["Epi_Prob_discrete"] = (EoN.Epi_Prob_discrete, (Pk, 0.4), {})
    calls["get_PGF"] = (lambda P: EoN.get_PGF(P)(0.5), (Pk,), {})
    calls["estimate_R0"] = (EoN.estimate_R0, (G,), dict(tau=0.6, gamma=0.7))
    calls["subsample"] = (EoN.subsample, ([0.5, 1.5, 2.5], A([0, 1, 2, 3]), A([5, 4, 3, 2]), A([0, 1, 2, 3])), {})
    calls["subsample(lists)"] = (EoN.subsample, ([0.5, 1.5, 2.5], [0, 1, 2, 3], [5, 4, 3, 2]), {})
    calls["get_time_shift"] = (EoN.get_time_shift, (A([0, 1, 2, 3]), A([0, 1, 4, 9]), 3), {})
    return calls


def twice(A, name, fn, args, kwargs, cls, deterministic, edit=None):
    names = ["arg%d" % i for i in range(len(args))] + sorted(kwargs)
    objs = list(args) + [kwargs[k] for k in sorted(kwargs)]
    before = [mon.snap(o) for o in objs]
    outs = []
    for rep in (1, 2):
        random.seed(5); np.random.seed(5)
        try:
            o = fn(*args, **kwargs)
        except Exception as e:
            A.add(V("C19", name, cls, "call%d_raises" % rep, "call #%d of %s with the same argument objects raised %s: %s" % (rep, name, type(e).__name__, str(e)[:120])))
            return
        outs.append(repr(sig(o)))      # repr: nan == nan
        after = [mon.snap(x) for x in objs]
        for s, m in mon.c19_compare(before, after, names):
            A.add(V("C19", name, cls, s, "after call #%d of %s: %s" % (rep, name, m)))
        if A.viol:
            break
    A.evals += 1
    A.states.add(name); A.trans.add((name, cls)); A.nontrivial.add((name, cls))
    if len(outs) == 2:
        A.outcomes.add(hsh(outs[0]))
        if deterministic and outs[0] != outs[1]:
            A.add(V("C19", name, cls, "not_repeatable", "two calls of %s with the same arguments return different results" % name))
    # "can be repeated" also after the caller has edited the graph object in between: a call must not remember anything
    # about an argument object.  Add an edge in place, call; compare with the call on an independent deep copy of the
    # edited graph; remove it again; rewire (same numbers of nodes and edges); undo - each time the call on the same object
    # must equal the call on an independent deep copy of the graph as it is then.
    if deterministic and len(outs) == 2 and not A.viol and args and isinstance(args[0], nx.Graph) and edit:
        import copy
        G = args[0]
        u, v = edit
        if not G.has_edge(u, v):
            def run(a0):
                random.seed(5); np.random.seed(5)
                return repr(sig(fn(a0, *args[1:], **kwargs)))
            try:
                steps = []
                G.add_edge(u, v, w=0.9, weight=1.3); steps.append(("edge %r added in place" % ((u, v),), run(G), run(copy.deepcopy(G))))
                G.remove_edge(u, v); steps.append(("edge %r added and removed again" % ((u, v),), run(G), run(copy.deepcopy(G))))
                # a rewiring that keeps the numbers of nodes and edges but changes degrees
                e1 = next(((a_, b_) for a_, b_ in G.edges() if a_ != b_ and {a_, b_} != {u, v}), None)
                if e1 is not None:
                    d1 = dict(G.edges[e1])
                    G.remove_edge(*e1); G.add_edge(u, v, w=0.9, weight=1.3)
                    steps.append(("edge %r replaced by %r in place (same numbers of nodes and edges)" % (e1, (u, v)), run(G), run(copy.deepcopy(G))))
                    G.remove_edge(u, v); G.add_edge(*e1, **d1)
                    steps.append(("the rewiring undone", run(G), run(copy.deepcopy(G))))
            except Exception as e:
                return          # (failures on the edited graph are not this check's business)
            A.evals += 1
            for what, got, want in steps:
                if got != want:
                    A.add(V("C19", name, cls, "remembers_graph", "%s called on the same graph object after %s differs from the call on an independent copy of the graph as it is now" % (name, what)))
                    break


def run_spec(spec, props=("C19",)):
    EoN, sim = import_eon()
    warnings.filterwarnings("ignore")
    np.seterr(all="ignore")
    A = Acc()
    n = spec["n"]; es = [tuple(e) for e in spec["edges"]]
    kind = spec["kind"]
    if kind == "sim":
        G = graph_with_attrs(n, es)
        for name, (fn, args, kw) in sim_calls(EoN, G, n).items():
            if spec.get("only") and name not in spec["only"]:
                continue
            B = Acc()
            twice(B, name, fn, args, kw, "simulator", True, edit=spec.get("edit"))   # same seeds: identical results expected too
            A.evals += B.evals; A.states |= B.states; A.trans |= B.trans; A.nontrivial |= B.nontrivial; A.outcomes |= B.outcomes
            for v in B.viol:
                A.add(v)
    elif kind == "wrappers":
        G = graph_with_attrs(n, es)
        I0 = list(spec["I0"]); R0 = list(spec["R0"])
        for name in cat.all_names():
            inf = cat.info(name)
            for icname, ic in (("sets", ("sets", I0, R0 if inf["hasR0"] else [])), ("sets(set)", ("sets", I0, R0 if inf["hasR0"] else [])), ("rho", ("rho", 0.2))):
                if not cat.supports(name, ic):
                    continue
                f = getattr(EoN, name)
                for full in ((False, True) if inf["hasfull"] else (False,)):
                    kw = {}
                    if inf["discrete"]:
                        kw.update(tmin=0, tmax=4)
                    else:
                        kw.update(tmin=0, tmax=2, tcount=5)
                    if inf["hasfull"]:
                        kw["return_full_data"] = full
                    if ic[0] == "rho":
                        kw["rho"] = 0.2
                    else:
                        kw["initial_infecteds"] = I0
                        if ic[2]:
                            kw["initial_recovereds"] = R0
                        if icname == "sets(set)":
                            kw["initial_infecteds"] = set(I0)
                            if ic[2]:
                                kw["initial_recovereds"] = set(R0)
                    if inf["node"]:
                        kw["nodelist"] = list(G.nodes())
                        kw["transmission_weight"] = "w"; kw["recovery_weight"] = "rw"
                    args = (G, 0.4) if inf["discrete"] else (G, 0.6, 0.7)
                    B = Acc()
                    twice(B, name + ("+full" if full else ""), f, args, kw, "wrapper:" + icname, True, edit=spec.get("edit"))
                    A.evals += B.evals; A.states |= B.states; A.trans |= B.trans; A.nontrivial |= B.nontrivial; A.outcomes |= B.outcomes
                    for v in B.viol:
                        if "raises" in v["key"]:
                            continue        # rejections / crashes are C06's business
                        A.add(v)
    else:
        G = gr.mk(n, es)
        for name, (fn, args, kw) in direct_calls(EoN, G, list(spec["I0"]), list(spec["R0"]), 0.2).items():
            B = Acc()
            twice(B, name, fn, args, kw, "direct", True)
            A.evals += B.evals; A.states |= B.states; A.trans |= B.trans; A.nontrivial |= B.nontrivial; A.outcomes |= B.outcomes
            for v in B.viol:
                A.add(v)
    A.execs = 2 * A.evals
    A.sample = {"spec": spec}
    return A.result(props)


def specs(tier):
    out = []
    thorough = tier != "quick"
    gs = [gr.NAMED[k] for k in ("P3", "K3", "P4", "S4", "C4", "paw")] + [(4, [(0, 1), (1, 2)]), (5, [(0, 1), (1, 2), (1, 3)])]    # the last two have an isolated node
    if thorough:
        gs = [(n, es) for n, es in gr.small_graphs(3) if es] + [(4, es) for es in gr.shapes(4) if es] + [gr.NAMED["bull"]]
    for n, es in gs:
        nonedges = [(u, v) for u in range(n) for v in range(u + 1, n) if (u, v) not in [tuple(sorted(e)) for e in es]]
        ed = list(nonedges[0]) if nonedges else None
        out.append(dict(kind="sim", n=n, edges=es, edit=ed))
        for (I0, R0) in (([0], [n - 1]), ([0, 1], []), ([1], [])):
            out.append(dict(kind="wrappers", n=n, edges=es, I0=I0, R0=R0, edit=ed))
            out.append(dict(kind="direct", n=n, edges=es, I0=I0, R0=R0))
    return out
