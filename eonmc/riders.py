"""Assembly of every simulator family for the monitor properties C04 C05 C09 C10 C19: the
monitors ride on the complete execution spaces of C01-C03, C11-C13, C15."""
from . import fam_gillespie as fg, fam_event_sir as fe, fam_event_sis as fs, fam_simple as fsi
from . import fam_complex as fc, fam_discrete as fd


def all_specs(tier, fams=None, full_only=False):
    out = []
    def add(fam, sp):
        for s in sp:
            if full_only and not s.get("full", False):
                continue
            out.append(dict(s, fam=fam))
    sel = lambda f: fams is None or f in fams
    if sel("gillespie"):
        add("gillespie", fg.specs_sir(tier)); add("gillespie", fg.specs_sis(tier))
    if sel("nonmarkov_sir"):
        add("nonmarkov_sir", fe.specs_nonmarkov(tier))
    if sel("fast_sir"):
        add("fast_sir", fe.specs_fast_sir(tier))
    if sel("nonmarkov_sis"):
        add("nonmarkov_sis", fs.specs_nonmarkov_sis(tier))
    if sel("fast_sis"):
        add("fast_sis", fs.specs_fast_sis(tier))
    if sel("simple"):
        add("simple", fsi.specs(tier))
    if sel("complex"):
        add("complex", fc.specs(tier))
    if sel("discrete"):
        add("discrete", [s for s in fd.specs(tier) if s["kind"] != "percolate"])
    return out


def run_spec(spec, props):
    fam = spec["fam"]
    if fam == "gillespie":
        return fg.run_spec(spec, props)
    if fam == "nonmarkov_sir":
        return fe.run_nonmarkov(spec, props)
    if fam == "fast_sir":
        return fe.run_fast_sir(spec, props)
    if fam == "nonmarkov_sis":
        return fs.run_nonmarkov_sis(spec, props)
    if fam == "fast_sis":
        return fs.run_fast_sis(spec, props)
    if fam == "simple":
        return fsi.run_spec(spec, props)
    if fam == "complex":
        return fc.run_spec(spec, props)
    if fam == "discrete":
        return fd.run_spec(spec, props)
    raise ValueError(fam)


def zero_sweep():
    """tau=0, gamma=0, both, and no initially infected node, on every simulator entry point."""
    out = []
    P3 = [(0, 1), (1, 2)]
    for (tau, gamma) in ((0.0, 0.7), (0.3, 0.0), (0.0, 0.0), (0.3, 0.7)):
        for I0 in ([0], [1], [], [0, 2]):
            for full in (False, True):
                for (tw, rw) in ((None, None), ("w", "rw")):
                    out.append(dict(fam="gillespie", fn="Gillespie_SIR", n=3, edges=P3, tw=tw, rw=rw, tau=tau, gamma=gamma, I0=I0, R0=[], full=full))
                    out.append(dict(fam="gillespie", fn="Gillespie_SIS", n=3, edges=P3, tw=tw, rw=rw, tau=tau, gamma=gamma, I0=I0, tmax=3.5, full=full))
                    out.append(dict(fam="fast_sir", fn="fast_SIR", n=3, edges=P3, tw=tw, rw=rw, tau=tau, gamma=gamma, I0=I0, R0=[], menu=[0.5, 1.6], full=full))
                    out.append(dict(fam="fast_sis", fn="fast_SIS", n=3, edges=P3, tw=tw, rw=rw, tau=tau, gamma=gamma, I0=I0, tmax=4.0, menu=[0.4, 1.6], budget=6, full=full))
    for I0 in ([], [1]):
        for full in (False, True):
            out.append(dict(fam="nonmarkov_sir", fn="fast_nonMarkov_SIR", n=3, edges=P3, I0=I0, R0=[], menu=[0, 1, "inf"], full=full))
            out.append(dict(fam="nonmarkov_sis", fn="fast_nonMarkov_SIS", n=3, edges=P3, I0=I0, tmax=4.0, budget=2, full=full))
            out.append(dict(fam="discrete", kind="rules", fn="discrete_SIR", n=3, edges=P3, I0=I0, R0=[], full=full))
            for fn in ("basic_discrete_SIR", "percolation_based_discrete_SIR", "basic_discrete_SIS"):
                for p in (0.0, 1.0):
                    out.append(dict(fam="discrete", kind="prob", fn=fn, n=3, edges=P3, p=p, I0=I0, R0=[], tmax=3 if fn.endswith("SIS") else "inf", full=full))
    # isolated nodes / single node graphs
    for fn in ("Gillespie_SIR", "Gillespie_SIS"):
        out.append(dict(fam="gillespie", fn=fn, n=1, edges=[], tw=None, rw=None, tau=0.3, gamma=0.0, I0=[0], R0=[], tmax=3.5, full=False))
    return out
