"""C03 - Gillespie_simple_contagion realises exactly the user-specified transitions."""
from eonmc import fam_simple as fs

LEVEL = "model_checking"
TECHNIQUE = "stateless explicit-state exploration of the implementation over enumerated model specifications (programs), graphs and initial statuses: every random-draw outcome enumerated, per-state offered events/clock rate vs a brute-force spec chain, internal candidate sets vs statuses after every event"
LEVEL_TEXT = ("For every enumerated program (named catalogue + all specs over 3 statuses with <=1 spontaneous and <=1/2 induced transitions), "
              "directed and undirected graph on <=3 nodes and every initial status vector, every execution of the real simulator up to the "
              "event horizon is run; in every reached state the offered events, their probabilities and the clock rate equal the reference "
              "chain's, and nothing else is offered.")
LEVEL_NOTE = "trusted: reference chain eonmc/ref.py:spec_rates; horizon 4/5 events (generated programs 3/4) from every initial status vector; <=3 (4) nodes; float tolerance 1e-9"
RULE = "one spec = (program, graph, initial status vector, horizon); all draw outcomes enumerated; non-trivial = execution with >=1 event"
BOUNDS = {"quick": "catalogue of 11 programs x all undirected graphs on <=3 nodes + all digraph shapes on <=3 nodes + 4 graphs with self-loops (2 directed) x all initial status vectors, horizon 4; 133 generated programs x 4 graphs x 27 initial vectors, horizon 3",
          "thorough": "all labelled digraphs on <=3 nodes, C4/S4, horizon 5; 1204 generated programs, horizon 4"}
ASSUMPTIONS = ["event horizon from every initial status vector instead of unbounded runs", "statuses limited to <=4 symbols"]


def specs(tier, seed):
    return fs.specs(tier)


def run_spec(spec):
    return fs.run_spec(spec, props=("C03",))
