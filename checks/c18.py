"""C18 - simulations are reproducible from the random seeds."""
from eonmc import fam_repro as fr

LEVEL = "model_checking"
TECHNIQUE = "exhaustive enumeration of all hash assignments (n! programmable-hash labels and status objects) for every continuous-time simulator, plus bounded enumeration of RNG seeds (8) and interpreter hash seeds (8/32) in sub-processes, with other entropy sources poisoned; determinism of the explorers' own prefix replays is checked in every other check"
LEVEL_TEXT = ("(iii) is the exhaustive part: for node labels and statuses whose hash values the harness assigns, every one of the n! assignments (n=3,4; 5 thorough) must give byte-identical "
              "output for every continuous-time simulator - i.e. every iteration order any hash-based container of them can have. (i) every simulator is run twice per seed in one "
              "process with os.urandom/time/SystemRandom/default_rng poisoned and must return identical output and leave identical generator states; arrays must not depend on "
              "return_full_data. (iv) sub-processes with different PYTHONHASHSEED and string names must agree byte-wise.")
LEVEL_NOTE = "(i) and (iv) are bounded subsets of the seed spaces (2^19937 / 2^32); only (iii) is exhaustive. The simulators' explored executions under the oracle are replayed twice in the other checks (determinism self-check)."
RULE = "states = hash assignments / seeds / hash seeds enumerated; one evaluation = all simulators under one of them; non-trivial = all (every run has events)"
BOUNDS = {"quick": "seeds VERIF_SEED..+7; all 3! and 4! hash assignments x 2 return modes; PYTHONHASHSEED 0..7 (incl. directed simple contagion with string labels and the event-driven simulators with initial_recovereds + >=2 listed index cases); rejection chain of choose_random followed for 150 consecutive rejections with poisoned entropy sources", "thorough": "adds all 5! assignments; PYTHONHASHSEED 0..31"}
ASSUMPTIONS = ["user call-backs return lists so that only EoN's own containers are in question"]


def specs(tier, seed):
    return fr.specs(tier, seed)


def run_spec(spec):
    return fr.run_spec(spec, props=("C18",))
