"""C20 - time-series and degree-distribution helpers have exact step/moment semantics."""
from eonmc import fam_helpers as fh

LEVEL = "exploration"
TECHNIQUE = "bounded-exhaustive enumeration of all non-decreasing time grids and report grids over a 4-letter alphabet (ties, repeats, reports beyond the end) x 1/2/3 series, all short series for get_time_shift, all graphs on <=5 nodes and all degree histograms kmax<=4 for the distribution helpers, against a step-function reference and exact rational polynomial arithmetic"
LEVEL_TEXT = ("subsample is evaluated on every pair of ordered grids of length <=4 (3) over {0,1,2,3} (+ a report beyond the end) and must return the last observation at or before each report "
              "time, identically for one, two and three series and for lists and arrays; get_time_shift on every series of length <=4 over {0,1,2}; get_Pk/get_Pnk/get_PGF*/estimate_R0 on every "
              "graph shape up to 5 nodes and every histogram with kmax<=4, compared with exact Fraction arithmetic at x in {1/4,1/2,3/4,1}.")
LEVEL_NOTE = "evaluation points in (0,1] only; graphs with at least one edge for estimate_R0 and get_Pnk"
RULE = "one evaluation = one input tuple; non-trivial = grids with at least two distinct observation times / graphs with an edge"
BOUNDS = {"quick": "time grids length<=4, report grids length<=3; series length<=4; all graph shapes on <=5 nodes, each followed by every in-place move of one edge to a non-edge and back, then a node added, joined and removed again, on the same graph object (get_Pk, get_Pnk, estimate_R0 asked again after each); histograms counts<=2", "thorough": "report grids length<=4; series length<=5; trees on 6 nodes, regular graphs; histogram counts<=3"}
ASSUMPTIONS = ["report_times[0] >= times[0] (documented precondition; the EoNError otherwise is expected)"]


def specs(tier, seed):
    return fh.specs(tier)


def run_spec(spec):
    return fh.run_spec(spec, props=("C20",))
