"""C17 - percolation-based probability/size estimators compute what they document."""
from eonmc import fam_perc as fp

LEVEL = "model_checking"
TECHNIQUE = "bounded-exhaustive enumeration of all digraphs (labelled <=3 nodes, all 218 shapes on 4) and, for the random/user-rule variants, exhaustive enumeration of every percolation outcome / every behaviour of the user rule on the real code, vs brute-force reachability closures"
LEVEL_TEXT = ("estimate_SIR_prob_size_from_dir_perc is evaluated on every digraph of the bound and must return the (in,out) fractions of SOME largest "
              "strongly connected component; estimate_SIR_prob_size is run for every outcome of every edge draw; the directed / non-Markovian "
              "variants for every behaviour of xi/zeta/transmission or delay/duration tables, including that the rule is consulted exactly for "
              "ordered neighbour pairs with the documented arguments.")
LEVEL_NOTE = "trusted: brute-force reach/scc in eonmc/ref.py (cross-checked with networkx for components); node bound 4 (5 undirected thorough)"
RULE = "one case = one digraph / one percolation outcome / one rule behaviour; non-trivial = at least one (kept) edge"
BOUNDS = {"quick": "all labelled digraphs on <=3 nodes (1+4+64), all 218 digraph shapes on 4; all graphs on <=4 nodes x p in {0,0.3,1}; rule tables on P2,P3,K3,K2+K1,S4 (rule answers as bool, numpy.bool_ and 0/1; xi/zeta as dict, defaultdict and a dict subclass that fills in values on first access; every rule consulted once per node/pair; the <=3-node shapes also as directed contact networks, with and without a reciprocated edge; three directed 3-node contact networks for the delay/duration tables); graphs with self-loops; disjoint unions of 2-3 small digraph shapes up to 6 nodes and acyclic 4-5-node pieces next to a 2-cycle/triangle; disjoint unions of small trees/cycles up to 9 nodes for the undirected estimator",
          "thorough": "all 4096 labelled digraphs on 4 nodes; undirected shapes on 5 nodes with <=7 edges; P4,C4"}
ASSUMPTIONS = ["ties between equally large components may be broken either way (the set of admissible answers is checked)"]


def specs(tier, seed):
    return fp.specs_c17(tier)


def run_spec(spec):
    return fp.run_spec(spec, props=("C17",))
