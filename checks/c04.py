"""C04 - trajectories are well-formed: conserved counts, ordered time, one event a step."""
from eonmc import riders

LEVEL = "model_checking"
TECHNIQUE = "trajectory well-formedness monitor evaluated on every execution of the exhaustive explorations of all simulator families (all random-draw outcomes / user-rule behaviours), plus a zero-rate / empty-seed sweep of every entry point"
LEVEL_TEXT = ("The monitor (equal lengths, t[0]=tmin, ordered, <tmax, non-negative integer counts summing to N, one legal move per row, SIR monotonicity, "
              "extinction for unbounded horizon with positive recovery) is applied to every complete execution produced by the explorers of C01-C03, C11-C13, C15, "
              "i.e. to every behaviour of the real code within those bounds, including runs ending by extinction, horizon, immediately, exact tmax hits and zero rates.")
LEVEL_NOTE = "inherits the bounds of the families it rides on; tmin<tmax only (the clauses 'first time is tmin' and 'never reach tmax' contradict otherwise); discrete simulators with non-integer horizon gap are only required what the property states"
RULE = "every complete execution of every family spec is one evaluation; non-trivial = trajectory with >=1 event"
BOUNDS = {"quick": "union of the quick bounds of C01, C02, C03, C11, C12, C13, C15 + zero-rate sweep", "thorough": "union of the thorough bounds"}
ASSUMPTIONS = ["tmin < tmax"]
PROPS = ("C04",)


def specs(tier, seed):
    return riders.all_specs(tier) + riders.zero_sweep()


def run_spec(spec):
    return riders.run_spec(spec, PROPS)
