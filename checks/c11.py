"""C11 - event-driven SIR with arbitrary delays equals first-passage percolation."""
from eonmc import fam_event_sir as fe, fam_perc as fp

LEVEL = "model_checking"
TECHNIQUE = "exhaustive enumeration of user delay/duration rule behaviours (lazily enumerated tables over {0,1,2,inf}: ties, zero, infinite) and of node/seed insertion orders on the real fast_nonMarkov_SIR / builders; each execution compared with Dijkstra first-passage percolation on the consulted tables"
LEVEL_TEXT = ("Every distinct behaviour of the user rules over the menu is executed on the real code for every graph/initial sets/horizon of the bound; "
              "infection and recovery times, arrays, recorded infectors and the tmax rule must equal first-passage percolation on the kept-edge digraph; "
              "a delay the reference needs but the code never requests is a violation. Builders: the returned DiGraph has exactly G's nodes, the documented "
              "attributes and edge u->v iff delay<=duration; get_infected_nodes equals the out-component without initially recovered nodes. fast_SIR's "
              "weighted and zero-rate paths go through the same oracle with an enumerating expovariate menu.")
LEVEL_NOTE = "trusted: Dijkstra reference eonmc/ref.py:fpp; menus {0,1,2,inf} / 2-3 exponential magnitudes; <=3 (4) nodes"
RULE = "one spec = (entry point, graph, insertion order, initial sets, horizon, rule form, return mode); every table behaviour enumerated; non-trivial = at least one delay consulted"
BOUNDS = {"quick": "all graphs on <=3 nodes + P4,S4; |I0|<=2,|R0|<=1; 3 horizons incl. exact tmax hits; both rule forms; all node orders with seed orders on <=3 nodes; negative tmin; self-loops; 5 directed contact networks on 3 nodes; user rules answering with numpy scalars / ints; the documented extra-argument tuples; builders on P2,P3,K3,K2+K1 and on 3 directed 3-node contact networks (path, path with a reciprocated edge, in-star)",
          "thorough": "adds C4,paw; builders on S4,P4; 3 exponential magnitudes"}
ASSUMPTIONS = ["user rules are functions of (u,v)/(u) (memoised tables)", "small-scope hypothesis"]


def specs(tier, seed):
    sp = [dict(s, kind="nonmarkov") for s in fe.specs_nonmarkov(tier)]
    sp += [dict(s, kind="fast") for s in fe.specs_fast_sir(tier) if s.get("tw") or s["tau"] * s["gamma"] == 0]
    sp += fp.specs_c11_builders(tier)
    return sp


def run_spec(spec):
    if spec["kind"] == "nonmarkov":
        return fe.run_nonmarkov(spec, props=("C11",))
    if spec["kind"] == "fast":
        res = fe.run_fast_sir(spec, props=("C01",))
        for v in res["violations"]:        # same oracle, reported under C11 (weighted / zero-rate path of fast_SIR)
            v["prop"] = "C11"; v["key"] = "C11" + v["key"][3:]
        return res
    return fp.run_spec(spec, props=("C11",))
