"""C19 - calls do not modify their arguments and can be repeated."""
from eonmc import riders, fam_immut

LEVEL = "exploration"
TECHNIQUE = "bounded-exhaustive enumeration of entry points x argument shapes: every simulator, every graph-taking ODE wrapper and every direct array-argument model function is called twice with the same argument objects and deep snapshots (graph nodes/edges/attributes/order, containers, arrays incl. shape/dtype/flags, model-specification graphs) are compared; plus an immutability monitor on the graphs used by the exhaustive explorations"
LEVEL_TEXT = ("Each entry point of the catalogue is called twice on shared argument objects for every graph and request of the bound; nothing may change (values, order, shape, dtype), the second "
              "call must succeed, and results must be identical (same seeds for the simulators). The monitor additionally snapshots the graph before and after the complete exhaustive exploration of every family spec.")
LEVEL_NOTE = "a defaultdict passed as IC may be auto-vivified by reads (not a visible change of the mapping); all argument values of the catalogue, not all possible values"
RULE = "one evaluation = one entry point x argument set called twice; non-trivial = all"
BOUNDS = {"quick": "37 simulator calls, 28 wrappers x {sets,rho} x return modes, 42 direct calls (incl. node-level models with explicit nodelist/Y0/X0/XY0/XX0 arrays) on P3,K3,P4,S4,C4,paw + two graphs with an isolated node x 3 initial sets; every simulator/wrapper call repeated on the same graph object after an in-place edge addition, its removal, a rewiring and its undoing (compared with an independent deep copy); monitor on the quick family specs of C01,C02,C03,C11,C12,C13,C15",
          "thorough": "all graphs with an edge on <=4 nodes + bull; monitor on the thorough family specs"}
ASSUMPTIONS = []
PROPS = ("C19",)


def specs(tier, seed):
    sp = [dict(s, fam="immut") for s in fam_immut.specs(tier)]
    mon = riders.all_specs(tier)
    # the monitor only needs each spec once with whatever return mode; keep every 4th to bound the cost
    return sp + mon[::4]


def run_spec(spec):
    if spec["fam"] == "immut":
        return fam_immut.run_spec(spec, PROPS)
    return riders.run_spec(spec, PROPS)
