"""C13 - event-driven SIS with arbitrary delays follows the plain reference semantics."""
from eonmc import fam_event_sis as fs

LEVEL = "model_checking"
TECHNIQUE = "exhaustive enumeration of user duration / delay-list rule behaviours (lazily enumerated per-call tables, infection budget) on the real fast_nonMarkov_SIS; each execution compared event by event with a plain sort-and-apply reference"
LEVEL_TEXT = ("Every behaviour of the duration and delay-list rules over the alphabet (2 durations x 4 sorted lists per ordered edge incl. a delay beyond the source's recovery and a pair of delays further apart than a duration, jittered so all event times are "
              "distinct) up to the infection budget is executed on the real code, in both rule forms and return modes; the reported history (infections with "
              "sources, recoveries, arrays) must equal the plain semantics: attempts succeed iff the target is susceptible at that instant, nothing at or after tmax.")
LEVEL_NOTE = "trusted: plain_sis reference; alphabet and infection budget (3/4); coincidence in law with fast_SIS for exponential rules follows from this semantics plus C02 by argument, not enumerated"
RULE = "one spec = (graph, initial set, horizon, rule form, return mode, budget); every rule behaviour enumerated; non-trivial = at least one transmission beyond the initial infections"
BOUNDS = {"quick": "P2,P3,K3; all I0; 2 durations x 4 delay lists ([],[a],[a,b],[a,c], c beyond the shorter duration); infection budget 4 (P2), 3 (P3), 2 (K3); exact tmax hit, shifted and negative tmin; 4 directed contact networks on 3 nodes; extra-argument tuples; every node history compared",
          "thorough": "adds C4,S4,P4 (budget 2); budgets 5/4/3"}
ASSUMPTIONS = ["distinct event times (the property's precondition) via dyadic jitter", "delay lists are sorted; they are NOT assumed to lie before recovery (the property speaks of every listed delay)"]


def specs(tier, seed):
    return fs.specs_nonmarkov_sis(tier)


def run_spec(spec):
    return fs.run_nonmarkov_sis(spec, props=("C13",))
