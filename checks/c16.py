"""C16 - weighted event selection stays proportional to weight after any history.

Explicit-state BFS over all operation histories of the real `_ListDict_(weighted=True)`:
each transition applies a real method to a deep copy of the real object; states are
deduplicated on the full internal state; in every state the selection distribution of the
real `choose_random` is computed exhaustively under the enumerating random source
(rejection loop closed as a geometric series) and compared with weight/sum.
"""
import copy, itertools
from eonmc import import_eon
from eonmc.core import explore, outcome_dist, HarnessError, CapHit
from eonmc.common import V, Acc
from eonmc import fam_gillespie as fg, fam_complex as fc

LEVEL = "model_checking"
TECHNIQUE = "explicit-state breadth-first search over all operation histories of the real _ListDict_ (deduplicated on full internal state) + exhaustive enumeration of the random draws of choose_random in every state; plus stateless exploration of the weighted simulators (Gillespie_SIR/SIS, complex contagion) checking per-state selection probability, clock rate and held weights"
LEVEL_TEXT = ("All histories of insert/update/remove/random_removal up to the depth bound over 3 items and a non-dyadic weight alphabet are "
              "explored on the real object; in every reachable state the exact selection distribution implied by the real rejection sampler "
              "equals weight/sum, zero weights are never selected, selection terminates when the sum is positive, total_weight() equals the sum.")
LEVEL_NOTE = "bounded depth and alphabet; reference = a plain dict; float tolerance 1e-9"
RULE = "states = distinct full internal states (items order, positions, weights, total, max, max count) reached by any history up to the depth bound; non-trivial = state with >=2 items of different positive weight"
# every selection is explored with the probability-zero outcome "uniform draw == 0.0" as an extra branch
BOUNDS = {"quick": "items {a,b,c}; weights {0,1e-8,0.1,0.3,2}; depth 5; start states: empty + one per first operation (fan-out); in vivo: every weighted Gillespie_SIR/SIS spec of C01/C02 on <=3 nodes and the non-monotone complex-contagion programs of C15 on <=3 nodes (selection probability, clock rate, held weights, zero-weight events); the all-reject execution of choose_random followed for 150, 1500 and 15000 consecutive proposals (two weight ratios)",
          "thorough": "items {a,b,c}; weights {0,1e-8,0.1,0.2,0.3,1,2}; depth 5; in vivo: the thorough C01/C02/C15 specs on <=3 nodes; all-reject chains up to 150000 proposals"}
ASSUMPTIONS = ["weight increments are non-negative (as the property states)", "bounded history depth"]

ITEMS = ["a", "b", "c"]
TOL = 1e-9


def ops_for(W):
    ops = []
    for x in ITEMS:
        for w in W:
            ops.append(("insert", x, w))
    for x in ITEMS:
        for w in W:
            ops.append(("update", x, w))
    for x in ITEMS:
        ops.append(("remove", x))
    ops.append(("random_removal",))
    return ops


def key_of(ld):
    return (tuple(ld.items), tuple(sorted(ld.item_to_position.items())),
            tuple(sorted((k, v) for k, v in ld.weight.items())), ld._total_weight, ld.max_weight, ld.max_weight_count)


def apply_ref(ref, op):
    ref = dict(ref)
    if op[0] == "insert":
        ref.pop(op[1], None)
        if op[2] != 0:
            ref[op[1]] = op[2]
    elif op[0] == "update":
        ref[op[1]] = ref.get(op[1], 0) + op[2]
    elif op[0] == "remove":
        del ref[op[1]]
    return ref


def specs(tier, seed):
    W = [0, 1e-8, 0.1, 0.3, 2] if tier == "quick" else [0, 1e-8, 0.1, 0.2, 0.3, 1, 2]
    depth = 5
    # fan out over the first two operations so that 16 processes share the search
    out = []
    ops = ops_for(W)
    firsts = [o for o in ops if o[0] in ("insert", "update")]
    for o1 in firsts:
        out.append({"W": W, "depth": depth, "first": list(o1)})
    out += invivo_specs(tier)
    # the rejection sampler never gives up: however many proposals are rejected in a row it proposes again
    for nrej in ((150, 1500, 15000) if tier == "quick" else (150, 1500, 15000, 150000)):
        for ratio in (1e-3, 1e-6):
            out.append({"persist": nrej, "ratio": ratio})
    return out


# ---- behavioural ("in vivo") part: the candidate lists as the real simulators drive them -------------
INVIVO_SYMPTOMS = ("clock_rate", "probability", "extra_event", "missing_event", "zero_rate_event", "stale_rate",
                   "livelock", "event_after_end", "exception")
INVIVO_PROGRAMS = ("SIS", "pressure", "decay", "tinydecay", "SIR_int0", "thr1", "twoway")


def invivo_specs(tier):
    out = []
    for sp in fg.specs_sir(tier) + fg.specs_sis(tier):
        if (sp.get("tw") or sp.get("rw")) and sp["n"] <= 3 and not sp.get("full"):
            out.append(dict(sp, invivo="gillespie"))
    for sp in fc.specs(tier):
        if sp["program"] in INVIVO_PROGRAMS and sp["n"] <= 3 and not sp.get("full") and "tmin" not in sp:
            out.append(dict(sp, invivo="complex"))
    return out


def run_invivo(spec):
    kind = spec["invivo"]
    sp = {k: v for k, v in spec.items() if k != "invivo"}
    if kind == "gillespie":
        main = "C01" if sp["fn"] == "Gillespie_SIR" else "C02"
        res = fg.run_spec(sp, props=(main,))
    else:
        main = "C15"
        res = fc.run_spec(sp, props=("C15",))
    keep = []
    for v in res["violations"]:
        _, entry, cls, sym = v["key"].split("|", 3)
        if sym in INVIVO_SYMPTOMS:
            v = dict(v, prop="C16", key="C16|%s|invivo:%s|%s" % (entry, cls, sym))
            keep.append(v)
    res["violations"] = keep
    return res


def selection(sim, ld):
    """Exact distribution of the real choose_random() in this state."""
    def fn(orc):
        c = copy.deepcopy(ld)
        return c.choose_random()
    runs = list(explore(sim, fn, cap=20000, selfcheck=0, heap=False, zero_draws=True))
    exc = [r.exc for r in runs if r.exc is not None and r.prob() > 0]
    if exc:
        return None, exc[0], len(runs)
    # executions of probability zero (a uniform draw equal to exactly 0.0) are legal behaviours too: the
    # property says a zero-weight candidate is NEVER selected
    never = [r.out for r in runs if r.cut is None and r.exc is None]
    d = outcome_dist([r for r in runs if not (r.exc is not None and r.prob() == 0)], lambda r: r.out)
    d["__returned__"] = set(never)
    return d, None, len(runs)


def check_state(sim, ld, ref, hist, A):
    cls = "weighted"
    # structural consistency
    if len(ld) != len(ref) or any((x in ld) != (x in ref) for x in ITEMS):
        A.add(V("C16", "_ListDict_", cls, "membership", "after %r: items %r but reference %r" % (hist, ld.items, ref), hist))
        return
    for x in ld.items:
        if ld.items[ld.item_to_position[x]] != x:
            A.add(V("C16", "_ListDict_", cls, "positions", "after %r: position map inconsistent %r %r" % (hist, ld.items, ld.item_to_position), hist))
            return
    tot = sum(ref.values())
    if abs(ld.total_weight() - tot) > TOL:
        A.add(V("C16", "_ListDict_", cls, "total", "after %r: total_weight()=%r, sum of weights %r" % (hist, ld.total_weight(), tot), hist, ld.total_weight(), tot))
    if tot > TOL:
        dist, exc, n = selection(sim, ld)
        A.execs += n
        if exc is not None:
            A.add(V("C16", "_ListDict_", cls, "select_exception", "after %r: choose_random raised %r with weights %r" % (hist, exc, ref), hist))
            return
        returned = dist.pop("__returned__", set())
        zsel = [x for x in returned if ref.get(x, 0) <= 0]
        if zsel:
            A.add(V("C16", "_ListDict_", cls, "zero_selected", "after %r: the zero-weight candidate %r can be returned by choose_random (when a uniform draw equals exactly 0.0) (weights %r)" % (hist, zsel[0], ref), hist))
            return
        if ("LIVELOCK",) in dist:
            A.add(V("C16", "_ListDict_", cls, "livelock", "after %r: choose_random can never accept (weights %r, max_weight %r)" % (hist, ref, ld.max_weight), hist))
            return
        for x in set(dist) | set(ref):
            want = ref.get(x, 0.0) / tot
            got = dist.get(x, 0.0)
            if abs(got - want) > TOL:
                sym = "zero_selected" if want == 0 else "proportion"
                A.add(V("C16", "_ListDict_", cls, sym, "after %r: P(select %r)=%.12g, weight/sum=%.12g (weights %r, max_weight %r)" % (hist, x, got, want, ref, ld.max_weight), hist, got, want))
                break
        A.outcomes.add(tuple(sorted((k, round(v, 9)) for k, v in dist.items())))
        if len({w for w in ref.values() if w > 0}) >= 2:
            A.nontrivial.add(key_of(ld))


def successors(sim, ld, ref, ops):
    """(op, new_ld, new_ref) for every enabled operation; random_removal branches on every
    item that can be selected."""
    for op in ops:
        if op[0] == "remove":
            if op[1] not in ref:
                continue
            c = copy.deepcopy(ld); c.remove(op[1])
            yield op, c, apply_ref(ref, op)
        elif op[0] == "random_removal":
            if sum(ref.values()) <= TOL:
                continue
            for x, w in ref.items():
                if w > 0:
                    # the removal itself (selection is checked separately in check_state)
                    c = copy.deepcopy(ld); c.remove(x)
                    yield ("random_removal->" + x,), c, apply_ref(ref, ("remove", x))
        else:
            c = copy.deepcopy(ld)
            getattr(c, op[0])(op[1], op[2]) if op[0] == "insert" else c.update(op[1], weight_increment=op[2])
            yield op, c, apply_ref(ref, op)


def _follows_rejection_protocol(r):
    """propose (random.choice) / test (one uniform comparison) pairs only, every test so far answered "reject"."""
    kinds = [t[0] for t in r.trace]
    if len(kinds) < 2 or len(kinds) % 2:
        return False
    for i in range(0, len(kinds), 2):
        if kinds[i] != "choice" or kinds[i + 1] != "U" or r.trace[i + 1][2] != 1:
            return False
    return True


def run_persist(spec):
    """One scheduled execution: the light candidate is proposed and rejected `persist` times in a row (an event of
    positive probability), then the default answers are taken.  choose_random must keep proposing and finally
    return a candidate whose acceptance test succeeded."""
    from eonmc.core import run_once
    EoN, sim = import_eon()
    A = Acc()
    nrej = spec["persist"]
    ld = sim._ListDict_(weighted=True)
    ld.update("light", weight_increment=spec["ratio"]); ld.update("heavy", weight_increment=1.0)
    # choice index 0 = 'light'; comparison outcome 1 = "draw >= weight/max" = rejected; afterwards: propose 'heavy' (1), accept
    prefix = tuple([0, 1] * nrej) + (1,)
    r = run_once(sim, lambda orc: ld.choose_random(), prefix, close_loops=False, heap=False, max_steps=4 * nrej + 100, allow_short=True)
    A.execs = 1; A.evals = 1; A.states.add(("persist", nrej, spec["ratio"])); A.trans.add(("persist", nrej)); A.nontrivial.add(("persist", nrej, spec["ratio"]))
    ntry = sum(1 for t in r.trace if t[0] == "choice")
    A.outcomes.add((ntry, repr(r.out)))
    hist = ["%d consecutive rejected proposals of 'light' (weight %g, heavy weight 1)" % (nrej, spec["ratio"])]
    if r.exc is not None:
        A.add(V("C16", "_ListDict_", "rejections", "select_exception", "after %s choose_random raised %r" % (hist[0], r.exc), hist))
    elif (r.short is not None or ntry != nrej + 1) and not _follows_rejection_protocol(r):
        # another (possibly perfectly good) selection algorithm: the scheduled answers do not mean "reject" to it - not judged here,
        # the exhaustive part above decides its selection law
        A.count["other_algorithm"] = 1
    elif r.short is not None or ntry != nrej + 1:
        A.add(V("C16", "_ListDict_", "rejections", "gives_up", "choose_random stopped proposing after %d attempts and returned %r although every proposal so far had been rejected (%d rejections were scheduled): the returned candidate is not drawn in proportion to the weights" % (ntry, r.out, nrej), hist))
    elif r.out != "heavy":
        A.add(V("C16", "_ListDict_", "rejections", "proportion", "after %s the accepted proposal was 'heavy' but %r was returned" % (hist[0], r.out), hist))
    A.sample = {"spec": spec, "proposals": ntry}
    return A.result()


def run_spec(spec):
    if spec.get("invivo"):
        return run_invivo(spec)
    if spec.get("persist"):
        return run_persist(spec)
    EoN, sim = import_eon()
    A = Acc()
    W = spec["W"]; depth = spec["depth"]
    ops = ops_for(W)
    ld = sim._ListDict_(weighted=True)
    ref = {}
    first = tuple(spec["first"])
    seen = set()
    # the empty state is checked by every worker (cheap); then the first operation
    check_state(sim, ld, ref, [], A)
    frontier = []
    for op, c, r in successors(sim, ld, ref, [first]):
        frontier.append((c, r, [op]))
    d = 1
    while frontier:
        nxt = []
        for (obj, r, hist) in frontier:
            k = key_of(obj)
            if k in seen:
                continue
            seen.add(k)
            check_state(sim, obj, r, hist, A)
            if d < depth:
                for op, c, r2 in successors(sim, obj, r, ops):
                    A.trans.add((k, op))
                    nxt.append((c, r2, hist + [op]))
        frontier = nxt
        d += 1
    A.states = seen
    A.evals = len(seen)
    A.sample = {"first": list(first), "states": len(seen), "example_history": None}
    return A.result()
