"""C06 - ODE outputs conserve the population and start from the requested state."""
from eonmc import fam_analytic as fa

LEVEL = "exploration"
TECHNIQUE = "bounded-exhaustive enumeration of input shapes (every graph up to the node bound x every kind of initial-condition request x rate and time grids x return modes) over all analytic entry points, against brute-force initial values and conservation/monotonicity oracles"
LEVEL_TEXT = ("All 28 graph-taking ODE entry points are called on every graph of the bound with every request kind (default, rho, explicit sets with and without initially "
              "recovered nodes, passed as list/set/tuple/node); the time grid must be exactly linspace, S+I(+R)=N to 1e-6 N, compartments in [0,N], SIR monotone, and the values "
              "at tmin - including every auxiliary full-data series in documented order - must equal brute-force counts from the graph and the sets. Deterministic "
              "functions: the exhaustive object is the input shape, not a schedule.")
LEVEL_NOTE = "solver accuracy is trusted up to the stated tolerances; short horizons (<=5 time units); graphs up to 4 (thorough: all shapes on 5) nodes; the direct array-argument models are reached through their *_from_graph wrappers and in C07/C19"
RULE = "one evaluation = one call of one entry point; distinct = (entry point, rates, grid, return mode) per (graph, request); non-trivial = graph has an edge and the request infects somebody"
BOUNDS = {"quick": "all graphs with >=1 edge on <=4 nodes + bull,P5,S5,C5; requests: default, rho in {0.05,0.2,0.5}, explicit sets |I0|<=2,|R0|<=1; 5 rate pairs; 3 time grids; both return modes; the 22 direct model functions behind the wrappers called with the wrapper's state arrays and with optional arguments left at their documented defaults (grid 0..100 in 1001 points, return_full_data=False) or shifted (non-degenerate requests)",
          "thorough": "adds all 33 graph shapes with an edge on 5 nodes and |I0|<=3"}
ASSUMPTIONS = ["documented return orders transcribed in eonmc/analytic_catalog.py (where wrapper and direct docstring disagree the direct model function's order is used)"]


def specs(tier, seed):
    return fa.specs(tier)


def run_spec(spec):
    return fa.run_spec(spec, props=("C06",))
