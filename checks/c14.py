"""C14 - results depend on network structure, not on node names or ordering."""
from eonmc import fam_relabel as fr

LEVEL = "exploration"
TECHNIQUE = "bounded-exhaustive enumeration of relabelings (7 label families incl. reversed ints, strings, tuples, mixed types, programmable-hash objects) and of ALL node insertion orders (n<=4) and edge insertion orders (m<=4); differential oracle against the canonical labelling for every graph-taking ODE entry point (default and explicit nodelist, both return modes) and the deterministic-rule simulators"
LEVEL_TEXT = ("Every ODE entry point that takes a graph is run on relabelled / re-ordered copies of every graph of the bound; outputs must equal the canonical labelling's within 1e-5 N (solver-tolerance level), "
              "per-node series being mapped through the relabelling (so an array indexed by label instead of position is caught even when it does not crash). discrete_SIR, "
              "fast_nonMarkov_SIR and fast_nonMarkov_SIS with tie-free rule tables defined on the structure must give identical per-node histories up to the relabelling.")
LEVEL_NOTE = "graphs: all shapes on 4 nodes, trees on 5 (6), C5,C6,K33,prism; failures on the canonical labelling itself belong to C06 and are skipped here"
RULE = "one evaluation = one (entry point, return mode, relabelled copy); non-trivial = all"
BOUNDS = {"quick": "7 label families; every 3rd of the 4! node orders, every 4th edge order; 3 requests; node-level models additionally with edge/node weights and an explicit nodelist in yet another order; simulators under a tie-free rule table and 3 tie-prone integer rule tables, with and without a finite tmax; 3 label families again with every mention of a node an equal-but-not-identical object; seeded twin runs (3 seeds from VERIF_SEED) of every stochastic simulator on 6- and 9-node graphs with shared vs fresh label objects, with and without self-loops", "thorough": "all node and edge orders; all trees on 6 nodes"}
ASSUMPTIONS = ["node labels are hashable; tuples are never themselves nodes of the graph's node set ambiguity (documented EoN caveat)"]


def specs(tier, seed):
    return fr.specs(tier, seed)


def run_spec(spec):
    return fr.run_spec(spec, props=("C14",))
