"""C12 - discrete-time simulators follow generation-by-generation Reed-Frost dynamics."""
from eonmc import fam_discrete as fd

LEVEL = "model_checking"
TECHNIQUE = "exhaustive enumeration of user rule behaviours (lazily enumerated Boolean tables) and of all Bernoulli-draw outcomes on the real code; trajectories vs breadth-first generations, and summed path probabilities vs the exact Reed-Frost / discrete-SIS chain"
LEVEL_TEXT = ("discrete_SIR: every distinct behaviour of the transmission rule (and of a recovery rule with bounded refusals) on every graph of "
              "the bound is executed and compared with breadth-first generations. basic_discrete_SIR / percolation_based_discrete_SIR / "
              "basic_discrete_SIS / percolate_network: every outcome of every Bernoulli draw is enumerated and the resulting distribution over "
              "whole trajectories (edge subsets) equals the exact chain's, in both return modes.")
LEVEL_NOTE = "trusted: step/BFS reference and exact chain in eonmc/fam_discrete.py; p in {0,0.3,1}; <=3 (4) nodes; SIS horizon 3 steps from every start set"
RULE = "one spec = (entry point, graph, initial sets, horizon, return mode[, p]); all rule tables / all draw outcomes enumerated; non-trivial = trajectory with >=1 step"
BOUNDS = {"quick": "all graphs on <=3 nodes + P4,C4; |I0|<=2,|R0|<=1; 4 horizons incl. non-integer gap; recovery rule with <=2 refusals; rules answering numpy.bool_ / 0-1; extra args tuple; 3 graphs with self-loops; p in {0,0.3,1}",
          "thorough": "adds S4,paw,K4 and all horizons on 4 nodes"}
ASSUMPTIONS = ["rules are functions of (u,v[,step]) - stateless user rules", "small-scope hypothesis"]


def specs(tier, seed):
    return fd.specs(tier)


def run_spec(spec):
    return fd.run_spec(spec, props=("C12",))
