"""C09 - recorded transmissions are causally valid and complete."""
from eonmc import riders

LEVEL = "model_checking"
TECHNIQUE = "transmission-causality monitor evaluated on every full-data execution of the exhaustive explorations of all simulator families (continuous, discrete, directed and undirected generic simulator)"
LEVEL_TEXT = ("For every full-data execution produced by the explorers (every random-draw outcome / rule behaviour within the family bounds) the transmission list is "
              "time-ordered, each sourced entry goes along an edge (in direction) from a node with the inducing status to a node with the induced-from status that "
              "changes at that time (next step for discrete time), every infection after tmin has exactly one entry, source-less entries are exactly the initially "
              "infected nodes, and SIR transmission trees are forests rooted there. An entry point exposing no transmission list violates 'exposes'.")
LEVEL_NOTE = "inherits the bounds of the families; under tie menus (C11 family) per-instant statuses are compared tie-aware; generic simulator: an entry is required iff the change is not explained by a spontaneous transition"
RULE = "every complete full-data execution is one evaluation; non-trivial = at least one event"
BOUNDS = {"quick": "full-data specs of the quick bounds of C01, C02, C03, C11, C12, C13", "thorough": "same for the thorough bounds"}
ASSUMPTIONS = []
PROPS = ("C09",)


def specs(tier, seed):
    fams = ("gillespie", "nonmarkov_sir", "fast_sir", "nonmarkov_sis", "fast_sis", "simple", "discrete")
    return riders.all_specs(tier, fams, full_only=True)


def run_spec(spec):
    return riders.run_spec(spec, PROPS)
