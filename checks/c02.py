"""C02 - Markovian SIS simulators sample the exact network SIS process."""
from eonmc import fam_gillespie as fg

LEVEL = "model_checking"
RULE = ("every graph/weight mode/rate pair/non-empty infected set is one spec with an event horizon K; for each spec EVERY "
        "outcome of every random draw is enumerated on the real code; non-trivial = execution with at least one event")
BOUNDS = {"quick": "graphs as C01; every non-empty infected set as start state; horizon 5 events (4 on 4 nodes); fast_SIS: 2 exponential magnitudes, draw budget 9 (7 on 4 nodes); self-loops; rates of order 1e-9; rates/times as ints and numpy scalars",
          "thorough": "all graphs on <=4 nodes + bull,P5,S5; horizon 6/5/4 events"}
ASSUMPTIONS = ["event horizon K from every start state instead of an unbounded run",
               "small-scope hypothesis on graph size"]


def specs(tier, seed):
    from eonmc import fam_event_sis as fs
    return fg.specs_sis(tier) + fs.specs_fast_sis(tier)


def run_spec(spec):
    if spec["fn"] == "fast_SIS":
        from eonmc import fam_event_sis as fs
        return fs.run_fast_sis(spec, props=("C02",))
    return fg.run_spec(spec, props=("C02",))

TECHNIQUE = "stateless explicit-state exploration of the implementation under an enumerating random source with event horizon K from every start state; per-state successor distribution and clock rate vs reference SIS chain"
LEVEL_TEXT = ("fast_SIS: every expovariate-menu outcome up to the draw budget is executed and a clock-discipline monitor over the logged draws and queue pushes/pops "
              "checks P1-P5 (right rates, clocks anchored now or at the end of the target's infectious period and independent of the drawn value, exactly one live clock per "
              "infectious-adjacent pair, no stale clocks, output = executed events); with the GSMP argument this gives the SIS chain. Gillespie_SIS: "
              "Exhaustive within the bound: every execution of the real Gillespie_SIS up to K events from every non-empty infected set; in every "
              "reached state (incl. reinfection and link re-insertion states) jump distribution and clock rate equal the reference chain's, "
              "which implies equality of the state distribution at every T<tmax.")
LEVEL_NOTE = "trusted: reference chain in eonmc/ref.py; float tolerance 1e-9; horizon K and graph size bound"
