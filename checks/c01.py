"""C01 - Markovian SIR simulators sample the exact network SIR process."""
from eonmc import fam_gillespie as fg

LEVEL = "model_checking"
RULE = ("every graph/weight mode/rate pair/initial sets/horizon of the bound is one spec; for each spec EVERY outcome of "
        "every random draw is enumerated (stateless DFS with prefix replay on the real code); non-trivial = complete "
        "execution with at least one event, distinct by choice sequence")
BOUNDS = {"quick": "Gillespie_SIR: all 11 labelled graphs on <=3 nodes + P4,S4,C4,paw,K4; |I0|<=2,|R0|<=1; 4 weight modes (one zero-weight edge on >=4 edges); 3x3 rate grid; 4 finite horizons incl. exact tmax hits and negative tmin; graphs with self-loops; 3-node weighted specs with the probability-zero outcome 'uniform draw == 0.0' as an extra branch. fast_SIR: all graphs with an edge on <=3 nodes + P4,S4; 2 exponential magnitudes with dyadic jitter; weighted, zero-rate and unweighted (binomial) paths, graphs with self-loops; both simulators also with rates of order 1e-9 (Gillespie) and with rates/times passed as Python ints, numpy.int64 and numpy.float64",
          "thorough": "all graphs on <=4 nodes + bull,P5,S5; all I0; |R0|<=2"}
ASSUMPTIONS = ["small-scope hypothesis: graphs above the node bound are not explored",
               "expovariate value is used by Gillespie code only as a clock increment (checked: the argument is compared with the chain's total rate)",
               "uniform draws are used only through comparisons (any other use raises a harness error)"]


def specs(tier, seed):
    from eonmc import fam_event_sir as fe
    return fg.specs_sir(tier) + fe.specs_fast_sir(tier)


def run_spec(spec):
    if spec["fn"] == "fast_SIR":
        from eonmc import fam_event_sir as fe
        return fe.run_fast_sir(spec, props=("C01",))
    return fg.run_spec(spec, props=("C01",))

TECHNIQUE = "stateless explicit-state exploration of the implementation: every outcome of every random draw enumerated (prefix-replay DFS, rejection loops closed as geometric series), per-state successor distribution and clock rate compared with a reference CTMC"
LEVEL_TEXT = ("Exhaustive within the bound: for every enumerated input every execution of the real Gillespie_SIR is run and, in every reached "
              "epidemic state, the offered next-event distribution and the exponential clock rate equal the reference chain's; final-size "
              "distribution cross-checked with the master equation. fast_SIR: draw protocol + deterministic response + binomial/sample "
              "independence are enumerated (see checks/c01 fast part), the percolation representation itself is a cited argument.")
LEVEL_NOTE = "trusted: reference chain in eonmc/ref.py; Python float arithmetic (tolerance 1e-9); small-scope hypothesis (<=4-5 nodes)"
