"""C10 - full-data object and plain time series describe the same epidemic."""
from eonmc import riders

LEVEL = "model_checking"
TECHNIQUE = "two-return-modes monitor on every execution of the exhaustive explorations: each choice sequence is replayed with return_full_data flipped (identical draws enforced) and the summary recomputed from node histories is compared with the arrays; status queries at every event time, midpoint and beyond; summary over every node subset"
LEVEL_TEXT = ("For every full-data execution of every family (all draw outcomes / rule behaviours in the bounds) the same choice prefix is replayed in array mode; both must consume "
              "identical draws, and the arrays must equal the summary recomputed from per-node histories; t/S/I/R() equal summary(); summary(nodelist) equals a direct "
              "count for EVERY node subset; histories start at tmin, are ordered and legal; node_status/get_statuses return the latest change at or before every query time.")
LEVEL_NOTE = "inherits the bounds of the families; discrete simulators under deterministic rules and integer horizon gap only (as the property states)"
RULE = "every complete full-data execution is one evaluation (plus one replay in array mode); non-trivial = at least one event"
BOUNDS = {"quick": "full-data specs of the quick bounds of C01, C02, C03, C11, C12(rules), C13, C15; every accessor re-read after each subset query and after all status queries", "thorough": "same for the thorough bounds"}
ASSUMPTIONS = []
PROPS = ("C10",)


def specs(tier, seed):
    sp = riders.all_specs(tier, None, full_only=True)
    return [s for s in sp if not (s["fam"] == "discrete" and s.get("kind") != "rules")]


def run_spec(spec):
    return riders.run_spec(spec, PROPS)
