"""C08 - ODE models are exact where theory says so: trees, final sizes, limits."""
from eonmc import fam_exact as fx

LEVEL = "exploration"
TECHNIQUE = "bounded-exhaustive enumeration of all trees up to the node bound x all single/pair seed placements (x optional initially recovered node) x 5 weight modes against an independent reference model (3^N-state master equation integrated by matrix exponential); all degree histograms of the bound for the final-size relations; all small graphs for the tau=0 / gamma=0 limits"
LEVEL_TEXT = ("SIR_pair_based_pure_IC must equal the exact master-equation expectation (tolerance 1e-6) on EVERY tree with <=5 (6/7) nodes, for every seed placement and with edge weights "
              "under the label 'weight', under a custom label, and node weights. Attack_rate_cts_time/_discrete must equal the t->infinity limit of EBCM/EBCM_discrete for every degree "
              "histogram of the bound, R(t+1)=R(t)+I(t) exactly; with tau=0 every entry point decays as I(0)exp(-gamma t) with S constant; with gamma=0 SIS and SIR siblings give the same S(t).")
LEVEL_NOTE = "trusted: the reference generator in eonmc/fam_exact.py and scipy.linalg.expm; 't->infinity' is tmax=400 with residual I<1e-9 N (non-converged cases are counted and skipped); trees beyond the bound are not explored"
RULE = "one evaluation = one (tree, weights, seeds) / (histogram, rho, rates) / (graph, request, entry point); non-trivial = all (every case has an infected node and an edge)"
BOUNDS = {"quick": "all trees on 2..5 nodes; single seeds, seed pairs, n cases with an initially recovered node; 5 weight modes; every second case repeated with a permuted explicit nodelist; histograms kmax<=3, counts<=2 x 3 rho x 3 rate pairs, plus 3 general initial conditions each (degree-dependent Sk0, explicit/default phiS0, phiR0 in {0,0.15,0.2}) against EBCM and EBCM_discrete(phiS0,phiR0); limits on all graphs with an edge on <=4 nodes",
          "thorough": "all trees on <=6 nodes (+7 nodes, 3 seed placements); histograms kmax<=4 counts<=3 with 4 general initial conditions each; limits on 5-node graphs"}
ASSUMPTIONS = ["master equation reference (eonmc/fam_exact.py) is correct", "scipy.linalg.expm accuracy"]


def specs(tier, seed):
    return fx.specs(tier)


def run_spec(spec):
    return fx.run_spec(spec, props=("C08",))
