"""C05 - requested initial conditions are what the simulation starts from."""
from eonmc import riders, fam_inputs

LEVEL = "model_checking"
TECHNIQUE = "bounded-exhaustive enumeration of simulators x graphs x disjoint initial sets x container types x passing styles x tmin x rho (all random.sample outcomes) on the real code, plus the initial-row monitor on every execution of the exhaustive explorations of all SIR/SIS families; differential exploration wrapper vs discrete_SIR"
LEVEL_TEXT = ("Row 0 and the per-node statuses at tmin must equal the request for every simulator/wrapper and every way of passing it; rho must select "
              "int(round(N rho)) distinct nodes with every subset reachable equally often (all sample outcomes enumerated); rho together with initial_infecteds must "
              "raise EoNError; basic_discrete_SIR and discrete_SIR must produce identical executions under identical draws (all draw outcomes enumerated).")
LEVEL_NOTE = "node labels are small ints; graphs <=4 nodes; the monitor part inherits the bounds of the families it rides on"
RULE = "one evaluation = one call (containers/conflict), one sample outcome (rho) or one execution of a family spec; non-trivial = call that returns a trajectory"
BOUNDS = {"quick": "10 simulators x 7 graphs x |I0|<=2 x |R0|<=1 x 7 containers x 2 passing styles x 3 tmin x 2 return modes; 8 rho values; 12 conflict cases each; differential on P2,P3,K3; events at exactly tmin (zero delay / zero infectious period rules) for fast_nonMarkov_SIS/SIR on P2,P3,K3,S4, array output",
          "thorough": "adds all graph shapes on 4 nodes"}
ASSUMPTIONS = ["an initially recovered *collection* is passed (a bare node for initial_recovereds is not required by the property)"]
PROPS = ("C05",)


def specs(tier, seed):
    sp = [dict(s, fam="inputs") for s in fam_inputs.specs(tier)]
    fams = ("gillespie", "nonmarkov_sir", "fast_sir", "nonmarkov_sis", "fast_sis", "discrete")
    return sp + riders.all_specs(tier, fams)


def run_spec(spec):
    if spec["fam"] == "inputs":
        return fam_inputs.run_spec(spec, PROPS)
    return riders.run_spec(spec, PROPS)
