"""C15 - Gillespie_complex_contagion always acts on up-to-date rates."""
from eonmc import fam_complex as fc

LEVEL = "model_checking"
TECHNIQUE = "stateless explicit-state exploration of the implementation over enumerated user programs (catalogue + lazily enumerated rate tables), graphs and initial status vectors; every random-draw outcome enumerated; per-state selection distribution, clock rate and held rates vs the user function on the current statuses"
LEVEL_TEXT = ("For every enumerated program, graph on <=3 (4) nodes and initial status vector every execution of the real simulator up to the "
              "horizon (unbounded for terminating models) is run; at every event boundary the rate the simulator holds for every node equals the "
              "user rate function on the current statuses, selection is proportional, the clock has the summed rate, the chooser's answer is "
              "applied, call-backs see the current status dict, and the run stops iff all rates are zero or tmax is reached.")
LEVEL_NOTE = "trusted: harness re-evaluation of the user functions; reads the simulator's local `nodes_by_rate` for the held-rate check (skipped if absent); horizon and node bounds"
RULE = "one spec = (program, graph, initial status vector, horizon, return mode); all draw outcomes and all lazily chosen rate-table entries enumerated; non-trivial = execution with >=1 event"
BOUNDS = {"quick": "12 programs (incl. integer status labels with a falsy label, heterogeneous independent decays, rates of order 1e-8); all graphs on <=3 nodes + C4,S4; every initial status vector (4 nodes: <=2 non-default); horizon 3 (2 on 4 nodes), unbounded for SIR-like",
          "thorough": "adds P4,K4; horizon 4/3; all return modes"}
ASSUMPTIONS = ["influence sets of the catalogue cover every node whose rate can change (precondition of the property)", "bounded horizon for non-terminating programs"]


def specs(tier, seed):
    return fc.specs(tier)


def run_spec(spec):
    return fc.run_spec(spec, props=("C15",))
