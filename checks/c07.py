"""C07 - equivalent ODE models agree: SIR hierarchy and regular-graph reductions."""
from eonmc import fam_equiv as fq

LEVEL = "exploration"
TECHNIQUE = "bounded-exhaustive enumeration of degree histograms (all with kmax<=3/4 and counts<=2/3), all graph shapes on 4 and 5 nodes and a catalogue of regular graphs x rho x rate grid; differential oracle between model implementations that theory says coincide"
LEVEL_TEXT = ("For every enumerated degree distribution (given directly as arrays to the direct model functions, and through the *_from_graph wrappers for every graph shape on 4-5 nodes) "
              "EBCM, SIR compact pairwise, super-compact pairwise, effective degree, compact effective degree and EBCM_pref_mix with uncorrelated mixing (continuous and discrete) must "
              "return the same S,I,R to 2e-5 N; on every regular graph of the catalogue heterogeneous pairwise = compact pairwise = pair-based = homogeneous pairwise and heterogeneous "
              "mean-field = individual-based = homogeneous mean-field, SIS and SIR. The measured maximum deviation is written to the evidence.")
LEVEL_NOTE = "tolerance 2e-5 N on horizons <= 3 (10 thorough) time units (a wrong factor in a right-hand side moves curves by >=1e-3 N); agreement only where the property asserts it"
RULE = "one evaluation = one (distribution/graph, rho, rates, grid) on which all models of a family are compared; distinct by those parameters; all are non-trivial (rho>0, at least one edge)"
BOUNDS = {"quick": "histograms kmax<=3, counts<=2 with <=3 occupied classes; all graph shapes on 4,5 nodes; regular graphs C3-C8,K4,K5,K33,prism,cube,2C3,K2; rho in {0.05,0.2,0.5}; 3 rate pairs; 4 graphs with self-loops and/or parallel edges (MultiGraph); 5 graphs analysed again after an in-place rewiring and an in-place edge addition of the same graph object",
          "thorough": "histograms kmax<=4, counts<=3; adds Petersen; tmax 10; 5 rate pairs"}
ASSUMPTIONS = ["solver accuracy of odeint/vode"]


def specs(tier, seed):
    return fq.specs_c07(tier)


def run_spec(spec):
    return fq.run_spec(spec, props=("C07",))
