#!/venv/bin/python
"""register_seeded.py <id> <property> <patch> <demo> <needs-text> <caught-by comma list> <ran-text>
Copies a confirmed property-breaking change into /verif/seeded/<id>/."""
import sys, os, json, shutil
sid, prop, patch, demo, needs, caught, ran = sys.argv[1:8]
d = os.path.join("/verif/seeded", sid)
os.makedirs(d, exist_ok=True)
shutil.copy(patch, os.path.join(d, "patch.diff"))
shutil.copy(demo, os.path.join(d, "demo.py"))
meta = {"id": sid, "breaks_property": prop, "needs_to_manifest": needs,
        "caught_by_checks": [c for c in caught.split(",") if c], "what_was_run": ran,
        "base_commit": os.popen("git -C /repo rev-parse --short HEAD").read().strip()}
json.dump(meta, open(os.path.join(d, "meta.json"), "w"), indent=1)
print("registered", d)
