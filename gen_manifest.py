#!/venv/bin/python
"""Regenerates MANIFEST.json from the check modules present in checks/ (kept valid at all times)."""
import json, os, sys, importlib
sys.path.insert(0, os.path.dirname(os.path.abspath(__file__)))
PY = "/venv/bin/python"
props = [json.loads(l) for l in open("properties.jsonl")]
checks = []; na = []
TECH = {}
for p in props:
    pid = p["id"]
    path = os.path.join("checks", pid.lower() + ".py")
    if not os.path.exists(path):
        na.append({"property_id": pid, "reason": "check not built yet (planned, see DESIGN.md section 2)"})
        continue
    mod = importlib.import_module("checks." + pid.lower())
    checks.append({
        "property_id": pid,
        "quick_cmd": "%s -m eonmc.runner %s --tier quick" % (PY, pid),
        "thorough_cmd": "%s -m eonmc.runner %s --tier thorough" % (PY, pid),
        "evidence_file": "/verif/evidence/%s.json" % pid,
        "replay_cmd_template": "%s -m eonmc.runner --replay {path}" % PY,
        "engine": "eonmc",
        "level_claimed": {"category": mod.LEVEL, "text": mod.LEVEL_TEXT, "design_ref": "DESIGN.md section 2, " + pid},
        "level_note": mod.LEVEL_NOTE,
        "technique": mod.TECHNIQUE,
    })
m = {
    "version": 1,
    "setup_cmd": "cd /verif && %s -m eonmc.selftest" % PY,
    "hooks": {"guard": "EON_VERIF", "enable": "no source hooks: every seam is a module global of EoN.simulation (random, np, heapq) or a caller-supplied call-back, substituted from outside by eonmc.core.seams; checks import EoN from /repo's working tree",
              "baseline_off_cmd": "cd /repo && /venv/bin/python -m pytest -ra -q -p no:cacheprovider --timeout=900 --continue-on-collection-errors EoN/tests",
              "source_commits": [], "add_only": True},
    "engines": [{"name": "eonmc", "path": "/verif/eonmc", "serves_properties": [c["property_id"] for c in checks],
                 "kind_free_text": "hand-written stateless choice-point explorer (prefix replay DFS with rejection-loop closure) that drives the real EoN code under owned randomness/call-backs/queue, plus bounded-exhaustive input enumerators and boring reference models"}],
    "checks": checks,
    "not_applicable": na,
    "notes": "Checks exit 0 (held), 1 (VIOLATION line) or 2 (harness limitation/cap hit: result not to be believed). Known findings: /verif/known_findings.json.",
}
json.dump(m, open("MANIFEST.json", "w"), indent=1)
print("checks:", [c["property_id"] for c in checks], "n/a:", [x["property_id"] for x in na])
