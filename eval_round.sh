#!/bin/bash
# usage: eval_round.sh <round dir e.g. /tmp/mut3> <prefix e.g. r3_> <Cxx> [extra checks...]
# for mutant 1..3 of that property: confirm the demo in the agent's worktree (no test suite) and run the named check(s)
rd=$1; pre=$2; c=$3; shift 3
for k in 1 2 3; do
  p=$rd/$c/${pre}mutant$k.patch; d=$rd/$c/${pre}demo$k.py
  [ -f $p ] || continue
  echo "### $c ${pre}mutant$k"
  ./confirm_mutant.sh $p $d $rd/$c notests
  EVAL_REPO=${EVAL_REPO:-/tmp/repo_eval} ./eval_mutant.sh $p quick $c "$@"
done
