#!/venv/bin/python
"""Re-evaluates every seeded change: applies seeded/<id>/patch.diff to /repo (or to the worktree named by REEVAL_REPO), runs the quick tier of the checks named in
meta.json['caught_by_checks'], requires exit 1 with a VIOLATION line from at least one of them, reverts /repo.
usage: reeval_seeded.py [id-substring]      (never run while another check uses /repo)"""
import sys, os, json, glob, subprocess, time
sel = sys.argv[1] if len(sys.argv) > 1 else ""
REPO = os.environ.get("REEVAL_REPO", "/repo")     # a scratch worktree of /repo at its HEAD keeps /repo itself free
ENV = dict(os.environ, EON_REPO=REPO)
res = []
for f in sorted(glob.glob("/verif/seeded/*/meta.json")):
    m = json.load(open(f))
    if sel not in m["id"]:
        continue
    d = os.path.dirname(f)
    if not m["caught_by_checks"]:
        res.append((m["id"], "known-miss", "")); print("%-10s known miss (registered as not caught)" % m["id"], flush=True); continue
    if subprocess.run(["git", "-C", REPO, "diff", "--quiet", "--", "EoN"]).returncode != 0:
        print(REPO + " not clean"); sys.exit(3)
    if subprocess.run(["git", "-C", REPO, "apply", os.path.join(d, "patch.diff")], capture_output=True).returncode != 0:
        res.append((m["id"], "PATCH-DOES-NOT-APPLY", "")); continue
    caught = []
    t0 = time.time()
    try:
        for c in m["caught_by_checks"]:
            p = subprocess.run(["/venv/bin/python", "-m", "eonmc.runner", c, "--tier", "quick", "--no-evidence"], cwd="/verif",
                               capture_output=True, text=True, timeout=1800, env=ENV)
            if p.returncode == 1 and "VIOLATION property=" in p.stdout:
                caught.append(c)
    finally:
        subprocess.run(["git", "-C", REPO, "checkout", "--", "EoN"])
    res.append((m["id"], "caught" if caught else "MISSED", ",".join(caught)))
    print("%-10s %-8s by %-12s (%.0fs)" % (m["id"], res[-1][1], res[-1][2], time.time() - t0), flush=True)
missed = [r for r in res if r[1] not in ("caught", "known-miss")]
print("%d seeded changes, %d caught, %d not: %s" % (len(res), len(res) - len(missed), len(missed), [r[0] for r in missed]))
sys.exit(1 if missed else 0)
